/-
  Lemmas/DecText.lean — the decimal literal `d<Display of a Decimal>`: its text is one DEC token when followed by a
  closing bracket, a space or a comma (`dec_litText`), and the token converts back to the decimal it was printed from
  (`dec_litOK`), for every decimal in normal form (96-bit mantissa, scale ≤ 28, no negative zero).
-/
import RevalModel.Lemmas.LexCompose

namespace Reval.LexC
open Reval Reval.Lex Reval.Disp

theorem takeWhile_append_stop (p : Char → Bool) (w r : Str) (hw : w.all p = true) (hr : ∀ c r', r = c :: r' → p c = false) :
    (w ++ r).takeWhile p = w ∧ (w ++ r).dropWhile p = r := by
  induction w with
  | nil =>
    cases r with
    | nil => simp
    | cons c r' => simp [List.takeWhile, List.dropWhile, hr c r' rfl]
  | cons a w ih =>
    simp only [List.all_cons, Bool.and_eq_true] at hw
    simp [List.takeWhile, List.dropWhile, hw.1, ih hw.2]

theorem ofDigits_zeros (k : Nat) (ds : Str) : Str.ofDigits (List.replicate k '0' ++ ds) = Str.ofDigits ds := by
  induction k with
  | zero => simp
  | succ k ih =>
    have : ∀ (a : Nat) (xs : Str), xs.foldl (fun a c => a * 10 + Str.digitVal c) a = a * 10 ^ xs.length + Str.ofDigits xs := by
      intro a xs
      induction xs generalizing a with
      | nil => simp [Str.ofDigits]
      | cons x xs ihx =>
        simp only [List.foldl_cons, List.length_cons, Str.ofDigits]
        rw [ihx, ihx (0 * 10 + Str.digitVal x)]
        simp [Nat.pow_succ, Nat.add_mul, Nat.mul_assoc, Nat.add_assoc, Nat.mul_comm 10]
    simp only [List.replicate_succ, List.cons_append, Str.ofDigits, List.foldl_cons]
    have h0 : Str.digitVal '0' = 0 := by decide
    rw [h0]
    simpa [Str.ofDigits] using ih

/-- the digits `Display for Decimal` writes: integer part (non-empty) and fraction part (`scale` digits) -/
structure DecParts (d : Dec) (ip fp : Str) : Prop where
  ipDigits : ip.all isDigit = true
  fpDigits : fp.all isDigit = true
  ipNe : ip ≠ []
  fpLen : fp.length = d.scale
  value : Str.ofDigits (ip ++ fp) = d.mant
  body : showDec d = (if d.neg then ['-'] else []) ++ (if d.scale = 0 then ip else ip ++ '.' :: fp)

theorem decParts (d : Dec) : ∃ ip fp, DecParts d ip fp := by
  obtain ⟨hv, hall, hne⟩ := showNat_spec d.mant
  by_cases hs : d.scale = 0
  · refine ⟨showNat d.mant, [], hall, rfl, hne, by simp [hs], by simpa using hv, ?_⟩
    simp only [showDec, hs, if_true]
    cases d.neg <;> simp
  · let padded := List.replicate (d.scale + 1 - (showNat d.mant).length) '0' ++ showNat d.mant
    have hpall : padded.all isDigit = true := by
      simp only [padded, List.all_append, List.all_replicate, Bool.and_eq_true]
      exact ⟨by split <;> simp [isDigit], hall⟩
    have hplen : d.scale + 1 ≤ padded.length := by simp only [padded, List.length_append, List.length_replicate]; omega
    refine ⟨padded.take (padded.length - d.scale), padded.drop (padded.length - d.scale), ?_, ?_, ?_, ?_, ?_, ?_⟩
    · simp only [List.all_eq_true] at hpall ⊢
      exact fun c hc => hpall c (List.mem_of_mem_take hc)
    · simp only [List.all_eq_true] at hpall ⊢
      exact fun c hc => hpall c (List.mem_of_mem_drop hc)
    · intro e
      have := congrArg List.length e
      simp at this; omega
    · simp; omega
    · rw [List.take_append_drop]
      simp only [padded]; rw [ofDigits_zeros]; exact hv
    · simp only [showDec, hs, if_false]
      cases d.neg <;> simp [padded]

theorem head_digit {ip : Str} (h : ip.all isDigit = true) (hne : ip ≠ []) :
    ∃ a ip', ip = a :: ip' ∧ isDigit a = true ∧ a ≠ '-' ∧ a ≠ '+' ∧ a ≠ '.' := by
  cases ip with
  | nil => exact absurd rfl hne
  | cons a ip' =>
    simp only [List.all_cons, Bool.and_eq_true] at h
    have := digit_range h.1
    exact ⟨a, ip', rfl, h.1, toNat_ne (by simp; omega), toNat_ne (by simp; omega), toNat_ne (by simp; omega)⟩

theorem dot_not_digit : isDigit '.' = false := by decide

/-- `Decimal::from_str` splits the printed text back into sign, digits, number of fraction digits -/
theorem splitNumber_showDec (d : Dec) : Lit.splitNumber (showDec d) = (d.neg, d.mant, d.scale, 0) := by
  obtain ⟨ip, fp, hp⟩ := decParts d
  obtain ⟨a, ip', rfl, ha, hm, hpl, hdot⟩ := head_digit hp.ipDigits hp.ipNe
  have body : Lit.splitNumber ((if d.scale = 0 then a :: ip' else a :: ip' ++ '.' :: fp)) = (false, d.mant, d.scale, 0) := by
    by_cases hs : d.scale = 0
    · have hfp : fp = [] := by have := hp.fpLen; rw [hs] at this; exact List.eq_nil_of_length_eq_zero this
      have tw := takeWhile_append_stop isDigit (a :: ip') [] hp.ipDigits (by intro c r' e; cases e)
      simp only [List.append_nil] at tw
      have hv := hp.value; rw [hfp] at hv
      simp only [List.append_nil] at hv
      simp only [hs, if_true, Lit.splitNumber]
      split
      · rename_i r e; cases e; exact absurd rfl hm
      · rename_i r e; cases e; exact absurd rfl hpl
      · simp [tw.1, tw.2, hv]
    · have tw := takeWhile_append_stop isDigit (a :: ip') ('.' :: fp) hp.ipDigits (by intro c r' e; cases e; exact dot_not_digit)
      have tw2 := takeWhile_append_stop isDigit fp [] hp.fpDigits (by intro c r' e; cases e)
      simp only [List.append_nil] at tw2
      simp only [List.cons_append] at tw
      have hv := hp.value
      simp only [List.cons_append] at hv
      simp only [hs, if_false, Lit.splitNumber, List.cons_append]
      split
      · rename_i r e; cases e; exact absurd rfl hm
      · rename_i r e; cases e; exact absurd rfl hpl
      · simp [tw.1, tw.2, tw2.1, tw2.2, hv, hp.fpLen]
  rw [hp.body]
  cases hn : d.neg
  · simpa using body
  · simp only [if_true, List.cons_append, List.nil_append]
    have := body
    simp only [Lit.splitNumber] at this ⊢
    split at this
    · rename_i r e; split at e <;> cases e <;> exact absurd rfl hm
    · rename_i r e; split at e <;> cases e <;> exact absurd rfl hpl
    · simpa using this

/-- a decimal in the normal form the parser produces -/
def DecWF (d : Dec) : Prop := d.mant ≤ Dec.maxMant ∧ d.scale ≤ 28 ∧ (d.neg = true → d.mant ≠ 0)

theorem parseDecimal_showDec (d : Dec) (h : DecWF d) : Lit.parseDecimal (showDec d) = some d := by
  obtain ⟨h1, h2, h3⟩ := h
  simp only [Lit.parseDecimal, splitNumber_showDec, h1, h2, decide_true, Bool.and_self, if_true]
  cases d with
  | mk neg mant scale =>
    simp only [Option.some.injEq, Dec.mk.injEq, and_true]
    cases neg
    · rfl
    · simp only [Bool.true_and, bne_iff_ne, ne_eq, decide_eq_true_eq]
      simpa using h3 rfl

/-- the DEC token of a printed decimal converts back to that decimal -/
theorem dec_token_value (o : Oracle) (d : Dec) (h : DecWF d) : Lit.ofTok o (.dec ('d' :: showDec d)) = .ok (.dec d) [] := by
  simp [Lit.ofTok, Lit.sliceFrom, parseDecimal_showDec d h]

theorem Fol.notDot {r : Str} (h : Fol false r) : ∀ c r', r = c :: r' → c ≠ '.' ∧ c ≠ 'e' ∧ c ≠ 'E' := by
  intro c r' e; subst e
  simp only [Fol, folChars, List.mem_cons, List.not_mem_nil, or_false] at h
  rcases h with (rfl | rfl | rfl | rfl | rfl | rfl | rfl) | ⟨h, _⟩ <;> first | decide | cases h

/-- the fraction matcher on the printed body followed by a follower -/
theorem matchFrac_body (d : Dec) (ip fp r : Str) (hp : DecParts d ip fp) (hr : Fol false r) :
    matchFrac ((if d.scale = 0 then ip else ip ++ '.' :: fp) ++ r) = some ((if d.scale = 0 then ip else ip ++ '.' :: fp).length) := by
  by_cases hs : d.scale = 0
  · simp only [hs, if_true]
    have hk := countWhile_append isDigit ip r hp.ipDigits hr.notDigit
    have hpos : 0 < ip.length := by cases ip with | nil => exact absurd rfl hp.ipNe | cons _ _ => simp
    simp only [matchFrac, hk, List.drop_left']
    cases r with
    | nil => simp [hpos]
    | cons c r' =>
      have := (hr.notDot c r' rfl).1
      split
      · rename_i r2 e; cases e; exact absurd rfl this
      · simp [hpos]
  · simp only [hs, if_false, List.append_assoc, List.cons_append]
    have hk := countWhile_append isDigit ip ('.' :: (fp ++ r)) hp.ipDigits (by intro c r' e; cases e; exact dot_not_digit)
    have hm := countWhile_append isDigit fp r hp.fpDigits hr.notDigit
    have hfl : 0 < fp.length := by rw [hp.fpLen]; omega
    simp only [matchFrac, hk, List.drop_left', hm, hfl, if_true, List.length_append, List.length_cons]
    simp; omega

theorem dec_step (d : Dec) (r : Str) (hr : Fol false r) :
    step ('d' :: showDec d ++ r) = some (some (.dec ('d' :: showDec d)), r) := by
  obtain ⟨ip, fp, hp⟩ := decParts d
  obtain ⟨a, ip', hip, ha, hm, hpl, hdot⟩ := head_digit hp.ipDigits hp.ipNe
  have hmf := matchFrac_body d ip fp r hp hr
  -- the body, as the word lexer sees it
  generalize hB : (if d.scale = 0 then ip else ip ++ '.' :: fp) = B at hmf
  have hBhead : ∃ B', B = a :: B' := by
    subst hB; subst hip
    by_cases hs : d.scale = 0 <;> simp [hs]
  obtain ⟨B', hB'⟩ := hBhead
  have hidc : countWhile isIdc (B ++ r) ≤ B.length := by
    subst hB
    by_cases hs : d.scale = 0
    · simp only [hs, if_true]
      rw [countWhile_append isIdc ip r (all_digit_idc hp.ipDigits) hr.notIdc]; exact Nat.le_refl _
    · simp only [hs, if_false, List.append_assoc, List.cons_append]
      rw [countWhile_append isIdc ip ('.' :: (fp ++ r)) (all_digit_idc hp.ipDigits) (by intro c r' e; cases e; decide)]
      simp
  rw [hp.body, hB]
  cases hn : d.neg
  · simp only [Bool.false_eq_true, if_false, List.nil_append]
    have hnum : matchNum 'd' (B ++ r) = some B.length := by
      subst hB'
      simp only [List.cons_append] at hmf ⊢
      simp [matchNum, hm, hpl, hmf]
    simp [step, Str.isWhite, isAlpha, stepWord, hnum, hidc, mkNum, List.take_left', List.drop_left']
  · simp only [if_true, List.cons_append, List.nil_append]
    have hnum : matchNum 'd' ('-' :: (B ++ r)) = some (1 + B.length) := by
      simp [matchNum, hmf]
    simp [step, Str.isWhite, isAlpha, stepWord, hnum, countWhile, isIdc, isDigit, mkNum, List.take_left', List.drop_left',
      List.take_succ_cons, Nat.add_comm]

end Reval.LexC
