/-
  Lemmas/Transparent.lean — caching is transparent (C11): the state-free denotation does not look at the `cacheable`
  declarations, so with deterministic functions the outcomes are the same whichever functions are declared cacheable.
-/
import RevalModel.Lemmas.Denote

namespace Reval

/-- the same environment with every function's `cacheable` declaration replaced by `c` -/
def Env.withCacheable (env : Env) (c : Str → Bool) : Env :=
  { env with fns := env.fns.map (fun p => (p.1, { p.2 with cacheable := c p.1 })) }

theorem lookup_map_snd {α β} (g : Str → α → β) (m : List (Str × α)) (k : Str) :
    lookup (m.map (fun p => (p.1, g p.1 p.2))) k = (lookup m k).map (g k) := by
  induction m with
  | nil => rfl
  | cons kv rest ih =>
    obtain ⟨k', v'⟩ := kv
    simp only [List.map_cons, lookup]
    split
    · rename_i h; subst h; rfl
    · exact ih

theorem callPure_withCacheable (env : Env) (c : Str → Bool) (f : Str) (a : Value) :
    callPure (env.withCacheable c) f a = callPure env f a := by
  unfold callPure Env.withCacheable
  simp only [lookup_map_snd (fun n (fm : FnModel) => ({ fm with cacheable := c n } : FnModel))]
  cases lookup env.fns f <;> rfl

theorem deterministic_withCacheable (env : Env) (c : Str → Bool) (hd : Deterministic env) :
    Deterministic (env.withCacheable c) := by
  intro f fm h i a
  unfold Env.withCacheable at h
  simp only [lookup_map_snd (fun n (fm : FnModel) => ({ fm with cacheable := c n } : FnModel))] at h
  cases hl : lookup env.fns f with
  | none => simp [hl] at h
  | some fm0 =>
    simp only [hl, Option.map_some, Option.some.injEq] at h
    subst h
    exact hd f fm0 hl i a

theorem denote_withCacheable_all (env : Env) (c : Str → Bool) :
    (∀ e, denote (env.withCacheable c) e = denote env e) ∧
    (∀ kvs, denoteMap (env.withCacheable c) kvs = denoteMap env kvs) ∧
    (∀ es, denoteList (env.withCacheable c) es = denoteList env es) := by
  apply denote.mutual_induct env
    (motive_1 := fun e => denote (env.withCacheable c) e = denote env e)
    (motive_2 := fun kvs => denoteMap (env.withCacheable c) kvs = denoteMap env kvs)
    (motive_3 := fun es => denoteList (env.withCacheable c) es = denoteList env es)
  all_goals (intros; simp only [denote, denoteList, denoteMap])
  all_goals first
    | rfl
    | (simp_all [callPure_withCacheable]; done)
    | (simp_all [callPure_withCacheable, Env.withCacheable, reference, symbol]; done)

end Reval
