/-
  Lemmas/ParserBasic.lean — basic facts about the reference parser, by induction on the fuel over all
  eleven mutually recursive functions at once:
  * what remains after a successful parse consists of tokens of the input (`RSub`),
  * no parsing function panics on tokens whose text has the shape the lexer guarantees (`TokWF`).
-/
import RevalModel.Impl.RuleParse

namespace Reval

/-- the shape the token regexes guarantee (what makes the prefix slices of the grammar actions safe) -/
def TokWF : Tok → Prop
  | .int t => 1 ≤ t.length
  | .float t => 1 ≤ t.length
  | .dec t => 1 ≤ t.length
  | .hex t => 2 ≤ t.length
  | .oct t => 2 ≤ t.length
  | .bin t => 2 ≤ t.length
  | .str t => 2 ≤ t.length
  | _ => True

def AllWF (ts : List Tok) : Prop := ∀ t ∈ ts, TokWF t

theorem ofTok_noPanic (o : Oracle) (t : Tok) (h : TokWF t) : (Lit.ofTok o t).isPanic = false := by
  cases t <;> simp only [Lit.ofTok, Lit.sliceFrom, TokWF] at * <;>
    (repeat' split) <;> simp_all [PR.isPanic] <;> omega

/-- every token left over by a successful parse is a token of the input -/
def RSub {α : Type} (r : PR α) (ts : List Tok) : Prop := ∀ a rest, r = .ok a rest → rest ⊆ ts

structure SubAll (o : Oracle) (f : Nat) : Prop where
  pIf : ∀ ts, RSub (pIf o f ts) ts
  pBin : ∀ k ts, RSub (pBin o f k ts) ts
  pBinLoop : ∀ k acc ts, RSub (pBinLoop o f k acc ts) ts
  pContains : ∀ ts, RSub (pContains o f ts) ts
  pContainsTail : ∀ ts, RSub (pContainsTail o f ts) ts
  pUnary : ∀ ts, RSub (pUnary o f ts) ts
  pIndex : ∀ ts, RSub (pIndex o f ts) ts
  pIndexLoop : ∀ acc ts, RSub (pIndexLoop o f acc ts) ts
  pTerm : ∀ ts, RSub (pTerm o f ts) ts
  pVecItems : ∀ ts, RSub (pVecItems o f ts) ts
  pMapItems : ∀ ts, RSub (pMapItems o f ts) ts

local macro "sub_branches" h:ident : tactic =>
  `(tactic| ((repeat' split at $h:ident) <;> (try (cases $h:ident)) <;>
      (try grind [RSub, List.subset_cons_self, List.Subset.trans, List.Subset.refl])))

theorem subAll (o : Oracle) : ∀ f, SubAll o f := by
  intro f
  induction f with
  | zero =>
    constructor <;> intros <;> intro a rest h <;> simp [Reval.pIf, Reval.pBin, Reval.pBinLoop, Reval.pContains,
      Reval.pContainsTail, Reval.pUnary, Reval.pIndex, Reval.pIndexLoop, Reval.pTerm, Reval.pVecItems, Reval.pMapItems] at h
  | succ f ih =>
    have h1 := ih.pIf; have h2 := ih.pBin; have h3 := ih.pBinLoop; have h4 := ih.pContains
    have h5 := ih.pContainsTail; have h6 := ih.pUnary; have h7 := ih.pIndex; have h8 := ih.pIndexLoop
    have h9 := ih.pTerm; have h10 := ih.pVecItems; have h11 := ih.pMapItems
    constructor
    · intro ts a rest h; simp only [Reval.pIf] at h; sub_branches h
    · intro k ts a rest h; simp only [Reval.pBin] at h; sub_branches h
    · intro k acc ts a rest h; simp only [Reval.pBinLoop] at h; sub_branches h
    · intro ts a rest h; simp only [Reval.pContains] at h; sub_branches h
    · intro ts a rest h; simp only [Reval.pContainsTail] at h; sub_branches h
    · intro ts a rest h; simp only [Reval.pUnary] at h; sub_branches h
    · intro ts a rest h; simp only [Reval.pIndex] at h; sub_branches h
    · intro acc ts a rest h; simp only [Reval.pIndexLoop] at h; sub_branches h
    · intro ts a rest h; simp only [Reval.pTerm] at h; sub_branches h
    · intro ts a rest h; simp only [Reval.pVecItems] at h; sub_branches h
    · intro ts a rest h; simp only [Reval.pMapItems] at h; sub_branches h

end Reval

namespace Reval

theorem AllWF_sub {ts r : List Tok} (h : AllWF ts) (hs : r ⊆ ts) : AllWF r := fun t ht => h t (hs ht)

theorem AllWF_tail {t : Tok} {r : List Tok} (h : AllWF (t :: r)) : AllWF r := fun x hx => h x (List.mem_cons_of_mem _ hx)

theorem AllWF_head {t : Tok} {r : List Tok} (h : AllWF (t :: r)) : TokWF t := h t (List.mem_cons_self)

/-- "does not panic" as an implication that `grind` can chain -/
def NP {α : Type} (r : PR α) : Prop := ∀ s, r ≠ .panic s

theorem ofTok_NP (o : Oracle) (t : Tok) (h : TokWF t) : NP (Lit.ofTok o t) := by
  intro s hs
  have := ofTok_noPanic o t h
  rw [hs] at this; simp [PR.isPanic] at this

structure NoPanicAll (o : Oracle) (f : Nat) : Prop where
  pIf : ∀ ts, AllWF ts → NP (pIf o f ts)
  pBin : ∀ k ts, AllWF ts → NP (pBin o f k ts)
  pBinLoop : ∀ k acc ts, AllWF ts → NP (pBinLoop o f k acc ts)
  pContains : ∀ ts, AllWF ts → NP (pContains o f ts)
  pContainsTail : ∀ ts, AllWF ts → NP (pContainsTail o f ts)
  pUnary : ∀ ts, AllWF ts → NP (pUnary o f ts)
  pIndex : ∀ ts, AllWF ts → NP (pIndex o f ts)
  pIndexLoop : ∀ acc ts, AllWF ts → NP (pIndexLoop o f acc ts)
  pTerm : ∀ ts, AllWF ts → NP (pTerm o f ts)
  pVecItems : ∀ ts, AllWF ts → NP (pVecItems o f ts)
  pMapItems : ∀ ts, AllWF ts → NP (pMapItems o f ts)

local macro "np_branches" h:ident : tactic =>
  `(tactic| ((repeat' split at $h:ident) <;> (try (cases $h:ident)) <;>
      (try grind [NP, RSub, AllWF_sub, AllWF_tail, AllWF_head, ofTok_NP, List.subset_cons_self, List.Subset.trans,
        List.Subset.refl])))

theorem noPanicAll (o : Oracle) : ∀ f, NoPanicAll o f := by
  intro f
  induction f with
  | zero =>
    constructor <;> intros <;> intro s h <;> simp [Reval.pIf, Reval.pBin, Reval.pBinLoop, Reval.pContains,
      Reval.pContainsTail, Reval.pUnary, Reval.pIndex, Reval.pIndexLoop, Reval.pTerm, Reval.pVecItems, Reval.pMapItems] at h
  | succ f ih =>
    have s := subAll o f
    have s1 := s.pIf; have s2 := s.pBin; have s3 := s.pBinLoop; have s4 := s.pContains
    have s5 := s.pContainsTail; have s6 := s.pUnary; have s7 := s.pIndex; have s8 := s.pIndexLoop
    have s9 := s.pTerm; have s10 := s.pVecItems; have s11 := s.pMapItems
    have h1 := ih.pIf; have h2 := ih.pBin; have h3 := ih.pBinLoop; have h4 := ih.pContains
    have h5 := ih.pContainsTail; have h6 := ih.pUnary; have h7 := ih.pIndex; have h8 := ih.pIndexLoop
    have h9 := ih.pTerm; have h10 := ih.pVecItems; have h11 := ih.pMapItems
    constructor
    · intro ts hw x h; simp only [Reval.pIf] at h; np_branches h
    · intro k ts hw x h; simp only [Reval.pBin] at h; np_branches h
    · intro k acc ts hw x h; simp only [Reval.pBinLoop] at h; np_branches h
    · intro ts hw x h; simp only [Reval.pContains] at h; np_branches h
    · intro ts hw x h; simp only [Reval.pContainsTail] at h; np_branches h
    · intro ts hw x h; simp only [Reval.pUnary] at h; np_branches h
    · intro ts hw x h; simp only [Reval.pIndex] at h; np_branches h
    · intro acc ts hw x h; simp only [Reval.pIndexLoop] at h; np_branches h
    · intro ts hw x h; simp only [Reval.pTerm] at h; np_branches h
    · intro ts hw x h; simp only [Reval.pVecItems] at h; np_branches h
    · intro ts hw x h; simp only [Reval.pMapItems] at h; np_branches h

/-- the parser never panics on well-shaped tokens -/
theorem parseToks_noPanic (o : Oracle) (ts : List Tok) (h : AllWF ts) : (parseToks o ts).isPanic = false := by
  have := (noPanicAll o (parseFuel ts)).pIf ts h
  unfold parseToks
  split <;> simp_all [PR.isPanic, NP]

end Reval
