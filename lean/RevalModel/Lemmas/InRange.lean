/-
  Lemmas/InRange.lean — evaluation never yields a value outside the range of its Rust type
  (`Value.inRange`, Spec/Range.lean): every Int an i128, every Decimal a 96-bit mantissa with scale ≤ 28,
  every DateTime / Duration within chrono's bounds, at every depth of a list or map.
  Part 1: the primitives.  Part 2: the operators.  Part 3: `eval`.
-/
import RevalModel.Spec.Range
import RevalModel.Lemmas.NoPanic
import RevalModel.Lemmas.Exact
import RevalModel.Impl.RuleSet

namespace Reval

/-! ### Part 1 — primitives -/


theorem I128.inRange_iff (n : Int) : I128.inRange n = true ↔ -(2^127) ≤ n ∧ n ≤ 2^127 - 1 := by
  unfold I128.inRange I128.min I128.max; simp only [Bool.and_eq_true, decide_eq_true_eq]

theorem I128.inRange_of_natAbs {n : Int} (h : n.natAbs < 2 ^ 127) : I128.inRange n = true := by
  rw [I128.inRange_iff]; omega

theorem I128.natAbs_le_of_inRange {n : Int} (h : I128.inRange n = true) : n.natAbs ≤ 2 ^ 127 := by
  rw [I128.inRange_iff] at h; omega

theorem I128.ofU_inRange {u : Nat} (h : u < 2 ^ 128) : I128.inRange (I128.ofU u) = true := by
  rw [I128.inRange_iff]; unfold I128.ofU; split <;> omega

theorem I128.toU_lt (n : Int) : I128.toU n < 2 ^ 128 := by
  unfold I128.toU; omega

theorem I128.land_inRange (a b : Int) : I128.inRange (I128.land a b) = true :=
  I128.ofU_inRange (Nat.and_lt_two_pow _ (I128.toU_lt b))
theorem I128.lor_inRange (a b : Int) : I128.inRange (I128.lor a b) = true :=
  I128.ofU_inRange (Nat.or_lt_two_pow (I128.toU_lt a) (I128.toU_lt b))
theorem I128.xor_inRange (a b : Int) : I128.inRange (I128.xor a b) = true :=
  I128.ofU_inRange (Nat.xor_lt_two_pow (I128.toU_lt a) (I128.toU_lt b))

theorem I128.checked_inRange {n r : Int} (h : I128.checked n = some r) : I128.inRange r = true := by
  unfold I128.checked at h; split at h <;> simp_all

theorem I128.checkedDiv_inRange {a b r : Int} (ha : I128.inRange a = true) (h : I128.checkedDiv a b = some r) :
    I128.inRange r = true := by
  unfold I128.checkedDiv at h
  split at h; · simp at h
  split at h; · simp at h
  rename_i hb hm
  injection h with h; subst h
  have h1 := Int.natAbs_tdiv_le_natAbs a b
  have h2 := I128.natAbs_le_of_inRange ha
  by_cases hlt : a.natAbs < 2 ^ 127
  · exact I128.inRange_of_natAbs (by omega)
  · -- a = MIN
    have hamin : a = I128.min := by rw [I128.inRange_iff] at ha; unfold I128.min; omega
    have hb1 : b ≠ -1 := fun h => hm ⟨hamin, h⟩
    rw [I128.inRange_iff]
    subst hamin
    -- |MIN / b| with |b| ≥ 2 or b = 1
    by_cases hb' : b = 1
    · subst hb'; simp [I128.min]
    · have : (Int.tdiv I128.min b).natAbs ≤ 2 ^ 126 := by
        rw [Int.natAbs_tdiv]
        have hb2 : 2 ≤ b.natAbs := by omega
        have : I128.min.natAbs = 2 ^ 127 := by simp [I128.min]
        rw [this]
        calc 2 ^ 127 / b.natAbs ≤ 2 ^ 127 / 2 := Nat.div_le_div_left hb2 (by decide)
          _ = 2 ^ 126 := by decide
      omega

theorem I128.checkedRem_inRange {a b r : Int} (ha : I128.inRange a = true) (h : I128.checkedRem a b = some r) :
    I128.inRange r = true := by
  unfold I128.checkedRem at h
  split at h; · simp at h
  split at h; · simp at h
  rename_i hb hm
  injection h with h; subst h
  have h2 := I128.natAbs_le_of_inRange ha
  have h3 : (Int.tmod a b).natAbs ≤ a.natAbs := by rw [Int.natAbs_tmod]; exact Nat.mod_le _ _
  have h4 : (Int.tmod a b).natAbs < b.natAbs := by rw [Int.natAbs_tmod]; exact Nat.mod_lt _ (by omega)
  by_cases hlt : a.natAbs < 2 ^ 127
  · exact I128.inRange_of_natAbs (by omega)
  · have hamin : a = I128.min := by rw [I128.inRange_iff] at ha; unfold I128.min; omega
    subst hamin
    -- tmod MIN b has the sign of MIN (≤ 0) and magnitude ≤ 2^127
    rw [I128.inRange_iff]
    have : Int.tmod I128.min b ≤ 0 := by
      have h5 := Int.tmod_nonneg (a := -I128.min) b (by decide)
      rw [Int.neg_tmod] at h5; omega
    omega
namespace Dec

theorem wf_iff (d : Dec) : d.wf = true ↔ d.mant ≤ maxMant ∧ d.scale ≤ 28 := by
  unfold wf maxScale; simp only [Bool.and_eq_true, decide_eq_true_eq]

theorem fit_bound : ∀ (n s start : Nat) (m sc : Nat), fit n s start = some (m, sc) → m ≤ maxMant ∧ sc ≤ start
  | n, s, 0, m, sc, h => by
    simp only [fit] at h
    split at h
    · injection h with h; injection h with h1 h2; subst h1 h2; exact ⟨by assumption, Nat.le_refl _⟩
    · simp at h
  | n, s, start + 1, m, sc, h => by
    simp only [fit] at h
    split at h
    · injection h with h; injection h with h1 h2; subst h1 h2; exact ⟨by assumption, Nat.le_refl _⟩
    · have := fit_bound n s start m sc h; omega

theorem addSigned_wf {a b d : Dec} (bneg : Bool) (ha : a.wf = true) (hb : b.wf = true)
    (h : addSigned a bneg b = .val d) : d.wf = true := by
  rw [wf_iff] at *
  unfold addSigned at h
  split at h; · simp at h
  split at h; · injection h with h; subst h; exact ha
  split at h; · injection h with h; subst h; exact hb
  simp only [] at h
  split at h
  · simp at h
  · rename_i m sc hfit
    split at h; · simp at h
    injection h with h; subst h
    have := fit_bound _ _ _ _ _ hfit
    simp only []
    constructor
    · exact this.1
    · have h2 := this.2; split at h2 <;> omega

theorem mul_wf {a b d : Dec} (h : mul a b = .val d) : d.wf = true := by
  rw [wf_iff]
  unfold mul at h
  split at h
  · injection h with h; subst h; simp [maxMant]
  · simp only [] at h
    split at h
    · simp at h
    · rename_i m sc hfit
      split at h; · simp at h
      injection h with h; subst h
      have := fit_bound _ _ _ _ _ hfit
      simp only []
      constructor
      · exact this.1
      · have h2 := this.2; split at h2 <;> omega

theorem negate_wf {d : Dec} (h : d.wf = true) : (negate d).wf = true := by
  rw [wf_iff] at *; exact h

theorem natAbs_num (d : Dec) : d.num.natAbs = d.mant := by
  unfold num; split <;> simp

theorem pow10_pos (s : Nat) : 0 < 10 ^ s := Nat.pow_pos (by decide)

theorem natAbs_toInt (d : Dec) : d.toInt.natAbs = d.mant / 10 ^ d.scale := by
  unfold toInt
  rw [Int.natAbs_tdiv, natAbs_num]
  congr 1

theorem toInt_inRange {d : Dec} (h : d.wf = true) : I128.inRange d.toInt = true := by
  rw [wf_iff] at h
  have h1 := natAbs_toInt d
  have h2 : d.mant / 10 ^ d.scale ≤ d.mant := Nat.div_le_self _ _
  have : d.toInt.natAbs < 2 ^ 127 := by unfold maxMant at h; omega
  unfold I128.inRange I128.min I128.max; simp only [Bool.and_eq_true, decide_eq_true_eq]; omega

theorem floor_wf {d r : Dec} (hd : d.wf = true) (h : floor d = .val r) : r.wf = true := by
  rw [wf_iff] at *
  unfold floor at h
  have h1 := natAbs_toInt d
  have h2 : d.mant / 10 ^ d.scale ≤ d.mant := Nat.div_le_self _ _
  dsimp only at h
  split at h
  · rename_i hc
    simp only [Bool.and_eq_true, decide_eq_true_eq] at hc
    have hs : d.scale ≠ 0 := by
      intro h0; apply hc.2; unfold toInt; rw [h0]; simp
    have : 10 ≤ 10 ^ d.scale := by
      cases hsc : d.scale with
      | zero => exact absurd hsc hs
      | succ k => rw [Nat.pow_succ]; have := pow10_pos k; omega
    have h3 : d.mant / 10 ^ d.scale ≤ d.mant / 10 := Nat.div_le_div_left this (by decide)
    split at h; · simp at h
    injection h with h; subst h
    simp only []
    unfold maxMant at *; omega
  · split at h; · simp at h
    injection h with h; subst h
    simp only []
    omega

theorem rhe_le (n d : Nat) : rhe n d ≤ n / d + 1 := by
  unfold rhe; simp only []; split <;> (try split) <;> (try split) <;> omega

theorem round_wf {d r : Dec} (hd : d.wf = true) (h : round d = .val r) : r.wf = true := by
  rw [wf_iff] at *
  unfold round at h
  simp only [] at h
  split at h; · simp at h
  injection h with h; subst h
  simp only []
  refine ⟨?_, by omega⟩
  cases hsc : d.scale with
  | zero => simp [rhe, Nat.mod_one]; exact hd.1
  | succ k =>
    have h1 := rhe_le d.mant (10 ^ (k + 1))
    have : 10 ≤ 10 ^ (k + 1) := by rw [Nat.pow_succ]; have := pow10_pos k; omega
    have h3 : d.mant / 10 ^ (k + 1) ≤ d.mant / 10 := Nat.div_le_div_left this (by decide)
    unfold maxMant at *; omega

theorem fract_wf {d r : Dec} (hd : d.wf = true) (h : fract d = .val r) : r.wf = true := by
  rw [wf_iff] at *
  unfold fract at h
  simp only [] at h
  split at h; · simp at h
  injection h with h; subst h
  simp only []
  exact ⟨Nat.le_trans (Nat.mod_le _ _) hd.1, hd.2⟩

theorem ofInt_wf {n : Int} {d : Dec} (h : ofInt n = some d) : d.wf = true := by
  unfold ofInt at h; split at h
  · injection h with h; subst h; rw [wf_iff]; exact ⟨by assumption, by simp⟩
  · simp at h

end Dec
namespace Time

theorem dtInRange_iff (t : Int) : dtInRange t = true ↔ dtMin ≤ t ∧ t ≤ dtMax := by
  unfold dtInRange; simp only [Bool.and_eq_true, decide_eq_true_eq]
theorem durInRange_iff (t : Int) : durInRange t = true ↔ -durMax ≤ t ∧ t ≤ durMax := by
  unfold durInRange; simp only [Bool.and_eq_true, decide_eq_true_eq]

theorem fromTimestamp_inRange {s t : Int} (h : fromTimestamp s = some t) : dtInRange t = true := by
  unfold fromTimestamp at h; split at h <;> simp_all
theorem trySeconds_inRange {s t : Int} (h : trySeconds s = some t) : durInRange t = true := by
  unfold trySeconds at h; split at h <;> simp_all
theorem tryUnits_inRange {u s t : Int} (h : tryUnits u s = some t) : durInRange t = true := by
  unfold tryUnits at h; split at h
  · exact trySeconds_inRange h
  · simp at h

theorem i128_of_natAbs {n : Int} (h : n.natAbs < 2 ^ 127) : I128.inRange n = true := by
  unfold I128.inRange I128.min I128.max; simp only [Bool.and_eq_true, decide_eq_true_eq]; omega

theorem numUnits_inRange (u : Int) {d : Int} (h : durInRange d = true) : I128.inRange (numUnits u d) = true := by
  rw [durInRange_iff] at h
  apply i128_of_natAbs
  unfold numUnits numSeconds
  have h1 := Int.natAbs_tdiv_le_natAbs (Int.tdiv d nsPerSec) u
  have h2 := Int.natAbs_tdiv_le_natAbs d nsPerSec
  unfold durMax at h; omega

theorem secsOf_bound {t : Int} (h : dtInRange t = true) : -8334601228800 ≤ secsOf t ∧ secsOf t ≤ 8210266876799 := by
  rw [dtInRange_iff] at h; unfold dtMin dtMax nsPerSec at h; unfold secsOf nsPerSec; omega

theorem hour_inRange (t : Int) : I128.inRange (hour t) = true := by
  apply i128_of_natAbs; unfold hour; omega
theorem minute_inRange (t : Int) : I128.inRange (minute t) = true := by
  apply i128_of_natAbs; unfold minute; omega
theorem second_inRange (t : Int) : I128.inRange (second t) = true := by
  apply i128_of_natAbs; unfold second; omega

theorem civil_bound (days : Int) (h : -100000000 ≤ days ∧ days ≤ 100000000) :
    (civil days).1.natAbs < 2 ^ 127 ∧ (civil days).2.1.natAbs < 2 ^ 127 ∧ (civil days).2.2.natAbs < 2 ^ 127 := by
  unfold civil
  dsimp only
  refine ⟨?_, ?_, ?_⟩
  · split <;> omega
  · split <;> omega
  · omega

theorem year_inRange {t : Int} (h : dtInRange t = true) : I128.inRange (year t) = true := by
  have hs := secsOf_bound h
  apply i128_of_natAbs; unfold year
  exact (civil_bound _ (by omega)).1
theorem month_inRange {t : Int} (h : dtInRange t = true) : I128.inRange (month t) = true := by
  have hs := secsOf_bound h
  apply i128_of_natAbs; unfold month
  exact (civil_bound _ (by omega)).2.1
theorem day_inRange {t : Int} (h : dtInRange t = true) : I128.inRange (day t) = true := by
  have hs := secsOf_bound h
  apply i128_of_natAbs; unfold day
  exact (civil_bound _ (by omega)).2.2

end Time
/-! ### Part 2 — operators -/

theorem ask_inRange {o : Oracle} (ho : o.InRange) {op : FOp} {args : List Value} {onFail : Res Value} {v : Value}
    (hf : ∀ w, onFail ≠ .ok w) (h : o.ask op args onFail = .ok v) : v.inRange = true := by
  unfold Oracle.ask at h
  split at h
  · rename_i w hw; injection h with h; subst h; exact ho _ _ _ hw
  · exact absurd h (hf v)
  · simp at h

theorem decOut_inRange {o : Oracle} (ho : o.InRange) {op : FOp} {args : List Value} {e : Err} {x : Dec.Out} {v : Value}
    (hx : ∀ d, x = .val d → d.wf = true) (h : Impl.decOut o op args e x = .ok v) : v.inRange = true := by
  cases x with
  | val d => simp [Impl.decOut] at h; subst h; simpa [Value.inRange] using hx d rfl
  | overflow => simp [Impl.decOut] at h
  | unknown => exact ask_inRange ho (by simp) h

theorem parseI128_inRange {s : Str} {n : Int} (h : Str.parseI128 s = some n) : I128.inRange n = true := by
  unfold Str.parseI128 at h
  dsimp only at h
  split at h <;> (dsimp only at h; split at h <;> first | (simp at h; done) | exact I128.checked_inRange h)

theorem lookup_inRange : ∀ {m : List (Str × Value)} {k : Str} {v : Value},
    Value.inRangeFields m = true → lookup m k = some v → v.inRange = true
  | [], _, _, _, h => by simp [lookup] at h
  | (k', v') :: m, k, v, hm, h => by
    simp only [Value.inRangeFields, Bool.and_eq_true] at hm
    simp only [lookup] at h
    split at h
    · injection h with h; subst h; exact hm.1
    · exact lookup_inRange hm.2 h

theorem getElem?_inRange : ∀ {xs : List Value} {n : Nat} {v : Value},
    Value.inRangeList xs = true → xs[n]? = some v → v.inRange = true
  | [], _, _, _, h => by simp at h
  | x :: xs, 0, v, hx, h => by
    simp only [Value.inRangeList, Bool.and_eq_true] at hx
    simp at h; subst h; exact hx.1
  | x :: xs, n + 1, v, hx, h => by
    simp only [Value.inRangeList, Bool.and_eq_true] at hx
    simp at h; exact getElem?_inRange hx.2 h

theorem index_inRange {v r : Value} {i : Index} (hv : v.inRange = true) (h : Impl.index v i = .ok r) : r.inRange = true := by
  unfold Impl.index at h
  split at h
  · rename_i m k
    injection h with h; subst h
    cases hl : lookup m k with
    | none => simp [Value.inRange]
    | some w => simp only [Option.getD]; exact lookup_inRange (by simpa [Value.inRange] using hv) hl
  · rename_i xs n
    injection h with h; subst h
    cases hl : xs[n]? with
    | none => simp [Value.inRange]
    | some w => simp only [Option.getD]; exact getElem?_inRange (by simpa [Value.inRange] using hv) hl
  · injection h with h; subst h; simp [Value.inRange]
  · simp at h

theorem mkDuration_inRange {u : Int} {v r : Value} {i : Int} (h : Impl.mkDuration u v i = .ok r) : r.inRange = true := by
  unfold Impl.mkDuration at h
  split at h
  · rename_i d hd
    injection h with h; subst h
    split at hd
    · simpa [Value.inRange] using Time.tryUnits_inRange hd
    · simp at hd
  · simp at h


/-- closes the goals where the result is a Bool / None / the operand itself / a string / a float -/
macro "triv_range" : tactic =>
  `(tactic| first
     | (simp at *; done)
     | (simp_all [Value.inRange]; done)
     | (simp only [Res.ok.injEq] at *; subst_vars; simp [Value.inRange]; done)
     | (simp only [Res.ok.injEq] at *; subst_vars; simp_all [Value.inRange]; done)
     | (subst_vars; simp_all [Value.inRange]; done))

theorem applyUn_inRange {o : Oracle} (ho : o.InRange) {op : UnOp} {v r : Value} (hv : v.inRange = true)
    (h : applyUn o op v = .ok r) : r.inRange = true := by
  cases op <;> simp only [applyUn] at h
  case not => unfold Impl.not at h; split at h <;> triv_range
  case neg =>
    unfold Impl.neg at h; split at h
    · split at h
      · rename_i hc; injection h with h; subst h; simpa [Value.inRange] using I128.checked_inRange hc
      · simp at h
    · triv_range
    · injection h with h; subst h; simpa [Value.inRange] using Dec.negate_wf (by simpa [Value.inRange] using hv)
    · triv_range
    · triv_range
  case some => unfold Impl.some at h; split at h <;> triv_range
  case isNone => unfold Impl.isNone at h; split at h <;> triv_range
  case toInt =>
    unfold Impl.toInt at h; split at h
    · triv_range
    · split at h
      · split at h
        · rename_i hr; injection h with h; subst h; simpa [Value.inRange] using hr
        · simp at h
      · simp at h
    · injection h with h; subst h; simpa [Value.inRange] using Dec.toInt_inRange (by simpa [Value.inRange] using hv)
    · split at h
      · rename_i hp; injection h with h; subst h; simpa [Value.inRange] using parseI128_inRange hp
      · simp at h
    · triv_range
    · triv_range
  case toFloat =>
    unfold Impl.toFloat at h; split at h
    · triv_range
    · triv_range
    · exact ask_inRange ho (by simp) h
    · exact ask_inRange ho (by simp) h
    · triv_range
    · triv_range
  case toDec =>
    unfold Impl.toDec at h; split at h
    · split at h
      · rename_i hd; injection h with h; subst h; simpa [Value.inRange] using Dec.ofInt_wf hd
      · simp at h
    · exact ask_inRange ho (by simp) h
    · triv_range
    · exact ask_inRange ho (by simp) h
    · triv_range
    · triv_range
  case dateTime =>
    unfold Impl.dateTime at h; split at h
    · exact ask_inRange ho (by simp) h
    · split at h
      · rename_i t ht; injection h with h; subst h
        split at ht
        · simpa [Value.inRange] using Time.fromTimestamp_inRange ht
        · simp at ht
      · simp at h
    · triv_range
    · triv_range
    · triv_range
  case duration =>
    unfold Impl.duration at h; split at h
    · split at h
      · rename_i t ht; injection h with h; subst h
        split at ht
        · simpa [Value.inRange] using Time.trySeconds_inRange ht
        · simp at ht
      · simp at h
    · triv_range
    · triv_range
    · triv_range
  case upper =>
    unfold Impl.upper at h; split at h
    · split at h
      · triv_range
      · exact ask_inRange ho (by simp) h
    · triv_range
    · triv_range
  case lower =>
    unfold Impl.lower at h; split at h
    · split at h
      · triv_range
      · exact ask_inRange ho (by simp) h
    · triv_range
    · triv_range
  case trim => unfold Impl.trim at h; split at h <;> triv_range
  case round =>
    unfold Impl.round at h; split at h
    · triv_range
    · exact decOut_inRange ho (fun d hd => Dec.round_wf (by simpa [Value.inRange] using hv) hd) h
    · triv_range
    · triv_range
  case floor =>
    unfold Impl.floor at h; split at h
    · triv_range
    · exact decOut_inRange ho (fun d hd => Dec.floor_wf (by simpa [Value.inRange] using hv) hd) h
    · triv_range
    · triv_range
  case fract =>
    unfold Impl.fract at h; split at h
    · triv_range
    · exact decOut_inRange ho (fun d hd => Dec.fract_wf (by simpa [Value.inRange] using hv) hd) h
    · triv_range
    · triv_range
  case year =>
    unfold Impl.year at h; split at h
    · injection h with h; subst h; simpa [Value.inRange] using Time.year_inRange (by simpa [Value.inRange] using hv)
    · triv_range
    · triv_range
  case month =>
    unfold Impl.month at h; split at h
    · injection h with h; subst h; simpa [Value.inRange] using Time.month_inRange (by simpa [Value.inRange] using hv)
    · triv_range
    · triv_range
  case week =>
    unfold Impl.week at h; split at h
    · exact mkDuration_inRange h
    · injection h with h; subst h; simpa [Value.inRange] using Time.numUnits_inRange _ (by simpa [Value.inRange] using hv)
    · triv_range
    · triv_range
  case day =>
    unfold Impl.day at h; split at h
    · exact mkDuration_inRange h
    · injection h with h; subst h; simpa [Value.inRange] using Time.day_inRange (by simpa [Value.inRange] using hv)
    · injection h with h; subst h; simpa [Value.inRange] using Time.numUnits_inRange _ (by simpa [Value.inRange] using hv)
    · triv_range
    · triv_range
  case hour =>
    unfold Impl.hour at h; split at h
    · exact mkDuration_inRange h
    · injection h with h; subst h; simpa [Value.inRange] using Time.hour_inRange _
    · injection h with h; subst h; simpa [Value.inRange] using Time.numUnits_inRange _ (by simpa [Value.inRange] using hv)
    · triv_range
    · triv_range
  case minute =>
    unfold Impl.minute at h; split at h
    · exact mkDuration_inRange h
    · injection h with h; subst h; simpa [Value.inRange] using Time.minute_inRange _
    · injection h with h; subst h; simpa [Value.inRange] using Time.numUnits_inRange _ (by simpa [Value.inRange] using hv)
    · triv_range
    · triv_range
  case second =>
    unfold Impl.second at h; split at h
    · exact mkDuration_inRange h
    · injection h with h; subst h; simpa [Value.inRange] using Time.second_inRange _
    · injection h with h; subst h; simpa [Value.inRange] using Time.numUnits_inRange _ (by simpa [Value.inRange] using hv)
    · triv_range
    · triv_range

theorem applyBin_inRange {o : Oracle} (ho : o.InRange) {op : BinOp} {a b r : Value} (ha : a.inRange = true)
    (hb : b.inRange = true) (h : applyBin o op a b = .ok r) : r.inRange = true := by
  cases op <;> simp only [applyBin] at h
  case mult =>
    unfold Impl.mult at h; split at h
    · split at h
      · rename_i hc; injection h with h; subst h; simpa [Value.inRange] using I128.checked_inRange hc
      · simp at h
    · triv_range
    · exact decOut_inRange ho (fun d hd => Dec.mul_wf hd) h
    · triv_range
    · triv_range
    · triv_range
  case div =>
    unfold Impl.div at h; split at h
    · split at h
      · rename_i hc; injection h with h; subst h
        simpa [Value.inRange] using I128.checkedDiv_inRange (by simpa [Value.inRange] using ha) hc
      · simp at h
    · triv_range
    · split at h
      · simp at h
      · exact ask_inRange ho (by simp) h
    · triv_range
    · triv_range
    · triv_range
  case rem =>
    unfold Impl.rem at h; split at h
    · split at h
      · rename_i hc; injection h with h; subst h
        simpa [Value.inRange] using I128.checkedRem_inRange (by simpa [Value.inRange] using ha) hc
      · simp at h
    · triv_range
    · split at h
      · simp at h
      · exact ask_inRange ho (by simp) h
    · triv_range
    · triv_range
    · triv_range
  case add =>
    unfold Impl.add at h; split at h
    · split at h
      · rename_i hc; injection h with h; subst h; simpa [Value.inRange] using I128.checked_inRange hc
      · simp at h
    · triv_range
    · exact decOut_inRange ho (fun d hd => Dec.addSigned_wf _ (by simpa [Value.inRange] using ha)
        (by simpa [Value.inRange] using hb) hd) h
    · split at h
      · rename_i hr; injection h with h; subst h; simpa [Value.inRange] using hr
      · simp at h
    · triv_range
    · triv_range
    · triv_range
  case sub =>
    unfold Impl.sub at h; split at h
    · split at h
      · rename_i hc; injection h with h; subst h; simpa [Value.inRange] using I128.checked_inRange hc
      · simp at h
    · triv_range
    · exact decOut_inRange ho (fun d hd => Dec.addSigned_wf _ (by simpa [Value.inRange] using ha)
        (by simpa [Value.inRange] using hb) hd) h
    · injection h with h; subst h
      simpa [Value.inRange] using dt_sub_dt_inRange _ _ (by simpa [Value.inRange] using ha) (by simpa [Value.inRange] using hb)
    · split at h
      · rename_i hr; injection h with h; subst h; simpa [Value.inRange] using hr
      · simp at h
    · split at h
      · rename_i hr; injection h with h; subst h; simpa [Value.inRange] using hr
      · simp at h
    · triv_range
    · triv_range
    · triv_range
  case gt => unfold Impl.gt at h; split at h <;> triv_range
  case gte => unfold Impl.gte at h; split at h <;> triv_range
  case lt => unfold Impl.lt at h; split at h <;> triv_range
  case lte => unfold Impl.lte at h; split at h <;> triv_range
  case bitAnd =>
    unfold Impl.bitwiseAnd at h; split at h
    · injection h with h; subst h; simpa [Value.inRange] using I128.land_inRange _ _
    all_goals triv_range
  case bitOr =>
    unfold Impl.bitwiseOr at h; split at h
    · injection h with h; subst h; simpa [Value.inRange] using I128.lor_inRange _ _
    all_goals triv_range
  case bitXor =>
    unfold Impl.bitwiseXor at h; split at h
    · injection h with h; subst h; simpa [Value.inRange] using I128.xor_inRange _ _
    all_goals triv_range
  case contains => unfold Impl.contains at h; split at h <;> triv_range


/-! ### Part 3 — evaluation -/

theorem reference_inRange {env : Env} (he : env.InRange) {n : Str} {v : Value} (h : reference env n = .ok v) :
    v.inRange = true := by
  unfold reference at h
  split at h
  · injection h with h; subst h; exact he.facts
  · split at h
    · rename_i m hm
      split at h
      · rename_i w hw; injection h with h; subst h
        have := he.facts; rw [hm] at this
        exact lookup_inRange (by simpa [Value.inRange] using this) hw
      · simp at h
    · simp at h

theorem symbol_inRange {env : Env} (he : env.InRange) {n : Str} {v : Value} (h : symbol env n = .ok v) :
    v.inRange = true := by
  unfold symbol at h
  split at h
  · rename_i w hw; injection h with h; subst h; exact he.symbols _ _ hw
  · simp at h

theorem St.InRange.cons {st : St} (hs : st.InRange) {k : Str × Value} {v : Value} (hv : v.inRange = true) (n : Nat) :
    St.InRange ⟨(k, v) :: st.cache, n⟩ := by
  intro k' v' h
  simp only [cacheGet] at h
  split at h
  · injection h with h; subst h; exact hv
  · exact hs _ _ h

theorem callFn_inRange {env : Env} (he : env.InRange) {f : Str} {a : Value} {st st2 : St} {r : Res Value} {ev : List Event}
    (hs : st.InRange) (h : callFn env f a st = (r, st2, ev)) :
    (∀ v, r = .ok v → v.inRange = true) ∧ st2.InRange := by
  unfold callFn at h
  split at h
  · simp only [Prod.mk.injEq] at h; obtain ⟨h1, h2, _⟩ := h; subst h1 h2; exact ⟨by simp, hs⟩
  · rename_i fm hfm
    split at h
    · split at h
      · rename_i w hw
        simp only [Prod.mk.injEq] at h; obtain ⟨h1, h2, _⟩ := h; subst h1 h2
        exact ⟨fun v hv => by injection hv with hv; subst hv; exact hs _ _ hw, hs⟩
      · split at h
        · rename_i w hw
          simp only [Prod.mk.injEq] at h; obtain ⟨h1, h2, _⟩ := h; subst h1 h2
          have hwr := he.fns _ _ hfm _ _ _ hw
          exact ⟨fun v hv => by injection hv with hv; subst hv; exact hwr, hs.cons hwr _⟩
        · simp only [Prod.mk.injEq] at h; obtain ⟨h1, h2, _⟩ := h; subst h1 h2
          exact ⟨by simp, fun k v hk => hs k v hk⟩
    · unfold invokeFn at h
      split at h
      · rename_i w hw
        simp only [Prod.mk.injEq] at h; obtain ⟨h1, h2, _⟩ := h; subst h1 h2
        have hwr := he.fns _ _ hfm _ _ _ hw
        exact ⟨fun v hv => by injection hv with hv; subst hv; exact hwr, fun k v hk => hs k v hk⟩
      · simp only [Prod.mk.injEq] at h; obtain ⟨h1, h2, _⟩ := h; subst h1 h2
        exact ⟨by simp, fun k v hk => hs k v hk⟩

theorem eval_inRange_all (env : Env) (he : env.InRange) :
    (∀ rp e st, e.litsInRange = true → st.InRange →
      (∀ v, (eval env rp e st).1 = .ok v → v.inRange = true) ∧ (eval env rp e st).2.1.InRange) ∧
    (∀ rp i kvs st, Expr.litsInRangeFields kvs = true → st.InRange →
      (∀ vs, (evalMap env rp i kvs st).1 = .ok vs → Value.inRangeFields vs = true) ∧ (evalMap env rp i kvs st).2.1.InRange) ∧
    (∀ rp i es st, Expr.litsInRangeList es = true → st.InRange →
      (∀ vs, (evalList env rp i es st).1 = .ok vs → Value.inRangeList vs = true) ∧ (evalList env rp i es st).2.1.InRange) := by
  apply eval.mutual_induct env
    (motive_1 := fun rp e st => e.litsInRange = true → st.InRange →
      (∀ v, (eval env rp e st).1 = .ok v → v.inRange = true) ∧ (eval env rp e st).2.1.InRange)
    (motive_2 := fun rp i kvs st => Expr.litsInRangeFields kvs = true → st.InRange →
      (∀ vs, (evalMap env rp i kvs st).1 = .ok vs → Value.inRangeFields vs = true) ∧ (evalMap env rp i kvs st).2.1.InRange)
    (motive_3 := fun rp i es st => Expr.litsInRangeList es = true → st.InRange →
      (∀ vs, (evalList env rp i es st).1 = .ok vs → Value.inRangeList vs = true) ∧ (evalList env rp i es st).2.1.InRange)
  all_goals (intros; simp only [eval, evalList, evalMap])
  all_goals first
    | (simp_all [Expr.litsInRange, Expr.litsInRangeList, Expr.litsInRangeFields, Value.inRange, Value.inRangeList, Value.inRangeFields]; done)
    | skip
  case case2 => exact ⟨fun v h => reference_inRange he h, by assumption⟩
  case case3 => exact ⟨fun v h => symbol_inRange he h, by assumption⟩
  case case4 =>
    rename_i rp e i st v st1 ev hx ih hl hs
    have hih := ih (by simpa [Expr.litsInRange] using hl) hs
    rw [hx] at hih ⊢
    exact ⟨fun w hw => index_inRange (hih.1 v rfl) hw, hih.2⟩
  case case6 =>
    rename_i rp f a st v st1 ev hx r st2 ev2 hc ih hl hs
    have hih := ih (by simpa [Expr.litsInRange] using hl) hs
    rw [hx] at hih ⊢
    have := callFn_inRange he hih.2 hc
    simp only [hc]
    exact this
  case case32 =>
    rename_i rp op e st v st1 ev hx ih hl hs
    have hih := ih (by simpa [Expr.litsInRange] using hl) hs
    rw [hx] at hih ⊢
    exact ⟨fun w hw => applyUn_inRange he.oracle (hih.1 v rfl) hw, hih.2⟩
  case case34 =>
    rename_i rp op l r st a st1 ev hx b st2 ev2 hx2 ih2 ih1 hl hs
    simp only [Expr.litsInRange, Bool.and_eq_true] at hl
    have hih2 := ih2 hl.1 hs
    rw [hx] at hih2 ⊢
    have hih1 := ih1 hl.2 hih2.2
    simp only [hx2] at hih1 ⊢
    exact ⟨fun w hw => applyBin_inRange he.oracle (hih2.1 a rfl) (hih1.1 b rfl) hw, hih1.2⟩


theorem eval_inRange {env : Env} (he : env.InRange) (rp : List Nat) (e : Expr) (st : St)
    (hl : e.litsInRange = true) (hs : st.InRange) :
    (∀ v, (eval env rp e st).1 = .ok v → v.inRange = true) ∧ (eval env rp e st).2.1.InRange :=
  (eval_inRange_all env he).1 rp e st hl hs

theorem St.init_inRange : St.init.InRange := by
  intro k v h; simp [St.init, cacheGet] at h

theorem evalRules_inRange {env : Env} (he : env.InRange) : ∀ (rules : List Expr) (i : Nat) (st : St),
    (∀ e ∈ rules, e.litsInRange = true) → st.InRange →
    ∀ r ∈ (evalRules env i rules st).1, ∀ v, r = .ok v → v.inRange = true
  | [], _, _, _, _ => by simp [evalRules]
  | e :: es, i, st, hl, hs => by
    have h1 := eval_inRange he [i] e st (hl e (by simp)) hs
    simp only [evalRules]
    intro r hr v hv
    simp only [List.mem_cons] at hr
    rcases hr with hr | hr
    · subst hr; exact h1.1 v hv
    · exact evalRules_inRange he es (i + 1) _ (fun e' he' => hl e' (by simp [he'])) h1.2 r hr v hv

/-! ### the bitwise operators, bit by bit -/

namespace I128

theorem toU_ofU {u : Nat} (h : u < 2 ^ 128) : toU (ofU u) = u := by
  unfold toU ofU; split <;> omega

/-- bit `i` of the two's-complement pattern of `n` -/
def bit (n : Int) (i : Nat) : Bool := (toU n).testBit i

/-- `&`, `|`, `^` on Ints act bit by bit on the 128-bit two's-complement patterns -/
theorem land_bit (a b : Int) (i : Nat) : bit (land a b) i = (bit a i && bit b i) := by
  unfold bit land
  show (toU (ofU (toU a &&& toU b))).testBit i = _
  rw [toU_ofU (Nat.and_lt_two_pow _ (toU_lt b))]
  exact Nat.testBit_and _ _ _
theorem lor_bit (a b : Int) (i : Nat) : bit (lor a b) i = (bit a i || bit b i) := by
  unfold bit lor
  show (toU (ofU (toU a ||| toU b))).testBit i = _
  rw [toU_ofU (Nat.or_lt_two_pow (toU_lt a) (toU_lt b))]
  exact Nat.testBit_or _ _ _
theorem xor_bit (a b : Int) (i : Nat) : bit (xor a b) i = (bit a i != bit b i) := by
  unfold bit xor
  show (toU (ofU (toU a ^^^ toU b))).testBit i = _
  rw [toU_ofU (Nat.xor_lt_two_pow (toU_lt a) (toU_lt b))]
  exact Nat.testBit_xor _ _ _

/-- the pattern determines the number: an i128 is its 128 bits -/
theorem ofU_toU {n : Int} (h : inRange n = true) : ofU (toU n) = n := by
  rw [inRange_iff] at h
  unfold toU ofU; split <;> omega

end I128

end Reval
