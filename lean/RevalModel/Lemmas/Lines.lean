/-
  Lemmas/Lines.lean — `str::lines` as modelled (`splitInclusive` + `stripEol`): the pieces concatenate to the text, a line
  feed can only be the last character of a piece, and a stripped line contains none.
-/
import RevalModel.Impl.RuleParse

namespace Reval.RuleParse

theorem splitInclusive_flatten (s cur : Str) : (splitInclusive s cur).flatten = cur.reverse ++ s := by
  induction s generalizing cur with
  | nil =>
    cases cur with
    | nil => simp [splitInclusive]
    | cons c r => simp [splitInclusive]
  | cons c r ih =>
    simp only [splitInclusive]
    split
    · simp [ih]
    · rw [ih]; simp

theorem splitInclusive_pieces (s cur : Str) (hc : '\n' ∉ cur) :
    ∀ p ∈ splitInclusive s cur, ∃ body, (p = body ++ ['\n'] ∨ p = body) ∧ '\n' ∉ body := by
  induction s generalizing cur with
  | nil =>
    cases cur with
    | nil => simp [splitInclusive]
    | cons c r =>
      intro p hp
      simp only [splitInclusive, List.mem_singleton] at hp
      exact ⟨p, Or.inr rfl, by rw [hp]; simp only [List.mem_reverse]; exact hc⟩
  | cons c r ih =>
    intro p hp
    simp only [splitInclusive] at hp
    split at hp
    · rename_i hnl
      have hcn : c = '\n' := by simpa using hnl
      simp only [List.mem_cons] at hp
      rcases hp with rfl | hp
      · exact ⟨cur.reverse, Or.inl (by simp [hcn]), by simpa using hc⟩
      · exact ih [] (by simp) p hp
    · rename_i hnl
      have hcn : c ≠ '\n' := by simpa using hnl
      exact ih (c :: cur) (by simp [hc, Ne.symm hcn]) p hp

theorem stripEol_no_newline (body : Str) (h : '\n' ∉ body) :
    '\n' ∉ stripEol (body ++ ['\n']) ∧ '\n' ∉ stripEol body := by
  constructor
  · unfold stripEol
    simp only [List.reverse_append, List.reverse_cons, List.reverse_nil, List.nil_append, List.singleton_append]
    split
    · rename_i r heq
      simp only [List.cons.injEq, true_and] at heq
      have : body = r.reverse ++ ['\r'] := by
        have := congrArg List.reverse heq; simpa using this
      intro hm; apply h; rw [this]; simp [hm]
    · rename_i r _ heq
      simp only [List.cons.injEq, true_and] at heq
      have : body = r.reverse := by have := congrArg List.reverse heq; simpa using this
      rw [← this]; exact h
    · rename_i h1 h2
      exact absurd rfl (h2 _)
  · unfold stripEol
    split
    · rename_i r heq
      have : '\n' ∈ body := by
        have : '\n' ∈ body.reverse := by rw [heq]; simp
        simpa using this
      exact absurd this h
    · rename_i r _ heq
      have : '\n' ∈ body := by
        have : '\n' ∈ body.reverse := by rw [heq]; simp
        simpa using this
      exact absurd this h
    · exact h

end Reval.RuleParse
