/-
  Lemmas/Resolve.lean — names and access paths (C10).
-/
import RevalModel.Spec.Denote

namespace Reval

theorem index_eq_resolveStep (v : Value) (i : Index) : Impl.index v i = resolveStep v i := by
  cases i <;> cases v <;> simp [Impl.index, resolveStep]

theorem lookup_mem {α} (m : List (Str × α)) (k : Str) (v : α) (h : lookup m k = some v) : (k, v) ∈ m := by
  induction m with
  | nil => simp [lookup] at h
  | cons kv rest ih =>
    obtain ⟨k', v'⟩ := kv
    simp only [lookup] at h
    split at h
    · simp_all
    · exact List.mem_cons_of_mem _ (ih h)

theorem lookup_none_iff {α} (m : List (Str × α)) (k : Str) : lookup m k = none ↔ k ∉ m.map Prod.fst := by
  induction m with
  | nil => simp [lookup]
  | cons kv rest ih =>
    obtain ⟨k', v'⟩ := kv
    simp only [lookup]
    split
    · simp_all
    · rename_i hne
      simp only [ih, List.map_cons, List.mem_cons, not_or]
      constructor
      · intro h; exact ⟨fun e => hne e.symm, h⟩
      · intro h; exact h.2

theorem lookup_of_mem_nodup {α} (m : List (Str × α)) (k : Str) (v : α)
    (hn : (m.map Prod.fst).Nodup) (h : (k, v) ∈ m) : lookup m k = some v := by
  induction m with
  | nil => simp at h
  | cons kv rest ih =>
    obtain ⟨k', v'⟩ := kv
    simp only [List.map_cons, List.nodup_cons] at hn
    simp only [lookup]
    rcases List.mem_cons.1 h with h | h
    · simp_all
    · split
      · rename_i hk; subst hk
        exact absurd (List.mem_map.2 ⟨(k', v), h, rfl⟩) hn.1
      · exact ih hn.2 h

/-- with unique keys (a `BTreeMap`), lookup returns exactly the entry stored under that key -/
theorem lookup_exact {α} (m : List (Str × α)) (k : Str) (v : α) (hn : (m.map Prod.fst).Nodup) :
    lookup m k = some v ↔ (k, v) ∈ m :=
  ⟨lookup_mem m k v, lookup_of_mem_nodup m k v hn⟩

theorem path_resolves (env : Env) (steps : List Index) :
    ∀ (rp : List Nat) (base : Expr) (st : St),
      eval env rp (pathExpr base steps) st =
        match eval env (List.replicate steps.length 0 ++ rp) base st with
        | (.ok v, st1, ev) => (resolve v steps, st1, ev)
        | other => other := by
  induction steps with
  | nil =>
    intro rp base st
    simp only [pathExpr, List.length_nil, List.replicate_zero, List.nil_append, resolve]
    split <;> simp_all
  | cons i rest ih =>
    intro rp base st
    simp only [pathExpr, ih, List.length_cons, List.replicate_succ, List.cons_append, eval, resolve]
    generalize eval env (0 :: (List.replicate rest.length 0 ++ rp)) base st = r
    obtain ⟨r1, st1, ev⟩ := r
    cases r1 <;> simp [index_eq_resolveStep]
    split <;> simp_all

/-- paths compose: resolving `s₁ ++ s₂` is resolving `s₂` from where `s₁` ends (an error of `s₁` is final) -/
theorem resolve_append (v : Value) (s1 s2 : List Index) :
    resolve v (s1 ++ s2) = match resolve v s1 with
      | .ok w => resolve w s2
      | other => other := by
  induction s1 generalizing v with
  | nil => simp [resolve]
  | cons i rest ih =>
    simp only [List.cons_append, resolve]
    cases h : resolveStep v i <;> simp [ih]

/-- every path from None ends in None: a step into None never fails and never produces data -/
theorem resolve_none (steps : List Index) : resolve .none steps = .ok .none := by
  induction steps with
  | nil => rfl
  | cons i rest ih => cases i <;> simpa [resolve, resolveStep] using ih

/-- a non-empty path into a scalar is a type error, whatever the steps are -/
theorem resolve_scalar (v : Value) (i : Index) (rest : List Index)
    (hm : v.ty ≠ .map) (hv : v.ty ≠ .vec) (hn : v.ty ≠ .none) :
    resolve v (i :: rest) = .err .invalidType := by
  cases i <;> cases v <;> simp_all [resolve, resolveStep, Value.ty]

end Reval
