/-
  Lemmas/Denote.lean — cache transparency: for deterministic user functions and a cache whose entries
  are results of those functions, the value of an evaluation is the state-free denotation, whatever the
  cache contains and however many calls preceded (C09, C12).
-/
import RevalModel.Lemmas.Cache
import RevalModel.Lemmas.Table

namespace Reval

/-- every cache entry is what its function returns for that argument -/
def Consistent (env : Env) (st : St) : Prop :=
  ∀ f a v, cacheGet st.cache (f, a) = some v → ∃ fm, lookup env.fns f = some fm ∧ fm.behave 0 a = .ok v

theorem consistent_init (env : Env) : Consistent env St.init := by
  intro f a v h; simp [St.init, cacheGet] at h

theorem callFn_denote (env : Env) (hd : Deterministic env) (f : Str) (a : Value) (st : St) (hc : Consistent env st) :
    (callFn env f a st).1 = callPure env f a ∧ Consistent env (callFn env f a st).2.1 := by
  unfold callFn callPure
  cases hfm : lookup env.fns f with
  | none => exact ⟨rfl, hc⟩
  | some fm =>
    simp only []
    by_cases hca : fm.cacheable = true
    · simp only [hca, if_true]
      cases hget : cacheGet st.cache (f, a) with
      | some v =>
        obtain ⟨fm', hfm', hb⟩ := hc f a v hget
        rw [hfm] at hfm'; cases hfm'
        simp only [hb]; exact ⟨trivial, hc⟩
      | none =>
        simp only []
        rw [hd f fm hfm st.calls a]
        cases hb : fm.behave 0 a with
        | ok v =>
          refine ⟨rfl, ?_⟩
          intro f' a' v' h'
          simp only [cacheGet] at h'
          split at h'
          · rename_i heq; cases heq; cases h'; exact ⟨fm, hfm, hb⟩
          · exact hc f' a' v' h'
        | error m => exact ⟨rfl, hc⟩
    · simp only [hca]
      unfold invokeFn
      rw [hd f fm hfm st.calls a]
      cases hb : fm.behave 0 a with
      | ok v => exact ⟨rfl, hc⟩
      | error m => exact ⟨rfl, hc⟩

theorem callFn_denote' {env : Env} (hd : Deterministic env) {f : Str} {a : Value} {st : St} (hc : Consistent env st)
    {r : Res Value} {st2 : St} {ev : List Event} (h : callFn env f a st = (r, st2, ev)) :
    r = callPure env f a ∧ Consistent env st2 := by
  have := callFn_denote env hd f a st hc; rw [h] at this; exact this

theorem eval_denote_all (env : Env) (hd : Deterministic env) :
    (∀ rp e st, Consistent env st → denote env e = (eval env rp e st).1 ∧ Consistent env (eval env rp e st).2.1) ∧
    (∀ rp i kvs st, Consistent env st → denoteMap env kvs = (evalMap env rp i kvs st).1 ∧ Consistent env (evalMap env rp i kvs st).2.1) ∧
    (∀ rp i es st, Consistent env st → denoteList env es = (evalList env rp i es st).1 ∧ Consistent env (evalList env rp i es st).2.1) := by
  apply eval.mutual_induct env
    (motive_1 := fun rp e st => Consistent env st → denote env e = (eval env rp e st).1 ∧ Consistent env (eval env rp e st).2.1)
    (motive_2 := fun rp i kvs st => Consistent env st → denoteMap env kvs = (evalMap env rp i kvs st).1 ∧ Consistent env (evalMap env rp i kvs st).2.1)
    (motive_3 := fun rp i es st => Consistent env st → denoteList env es = (evalList env rp i es st).1 ∧ Consistent env (evalList env rp i es st).2.1)
  all_goals (intros; simp only [eval, evalList, evalMap, denote, denoteList, denoteMap])
  all_goals first
    | (simp_all [applyUn_eq_table, applyBin_eq_table]; done)
    | (simp_all
       obtain ⟨_, hcons⟩ := ‹_ ∧ Consistent env _›
       have hc := callFn_denote' hd hcons ‹callFn _ _ _ _ = _›
       simp_all; done)
    | (split <;> simp_all [applyUn_eq_table, applyBin_eq_table]; done)
    | (have ih := ‹Consistent env _ → _› ‹Consistent env _›
       generalize eval env _ _ _ = res at *
       obtain ⟨r, st1, ev⟩ := res
       cases r <;> simp_all; done)

end Reval

namespace Reval

/-- for deterministic functions, the value of an evaluation does not depend on the cache or on what ran
    before: it is the state-free denotation of the expression -/
theorem eval_denote (env : Env) (hd : Deterministic env) (rp : List Nat) (e : Expr) (st : St)
    (hc : Consistent env st) : (eval env rp e st).1 = denote env e ∧ Consistent env (eval env rp e st).2.1 :=
  ⟨((eval_denote_all env hd).1 rp e st hc).1.symm, ((eval_denote_all env hd).1 rp e st hc).2⟩

/-- ruleset level: outcome `k` is the denotation of rule `k` -/
theorem evalRules_denote (env : Env) (hd : Deterministic env) : ∀ (rules : List Expr) (i : Nat) (st : St),
    Consistent env st → (evalRules env i rules st).1 = rules.map (denote env) := by
  intro rules
  induction rules with
  | nil => intro i st _; simp [evalRules]
  | cons e es ih =>
    intro i st hc
    have h1 := eval_denote env hd [i] e st hc
    simp only [evalRules, List.map_cons]
    rw [ih (i + 1) _ h1.2, h1.1]

end Reval
