/-
  Lemmas/Adequacy.lean — the resumption semantics is the big-step semantics: running `evalK e k` to
  completion (feeding each suspended call the function's answer) equals continuing `k` with the result of `eval e`.
-/
import RevalModel.Impl.Async

namespace Reval

theorem callFnK_adequate {α : Type} (env : Env) (f : Str) (arg : Value) (st : St) (k : Kont α) :
    run env (callFnK env f arg st k) =
      run env (k (callFn env f arg st).1 (callFn env f arg st).2.1 (callFn env f arg st).2.2) := by
  unfold callFnK callFn invokeFn
  cases hf : lookup env.fns f with
  | none => rfl
  | some fm =>
    simp only []
    by_cases hc : fm.cacheable = true
    · simp only [hc, if_true]
      cases hg : cacheGet st.cache (f, arg) with
      | some v => rfl
      | none =>
        simp only [run, answer, hf]
        cases hb : fm.behave st.calls arg <;> rfl
    · have hc' : fm.cacheable = false := by cases h : fm.cacheable <;> simp_all
      simp only [hc', Bool.false_eq_true, if_false, run, answer, hf]
      cases hb : fm.behave st.calls arg <;> rfl

/-- apply a continuation to a (result, state, events) triple -/
def app3 {α β} (k : Res α → St → List Event → Resumption β) (t : Res α × St × List Event) : Resumption β := k t.1 t.2.1 t.2.2

theorem callFnK_adequate' {α : Type} (env : Env) (f : Str) (arg : Value) (st : St) (k : Kont α) :
    run env (callFnK env f arg st k) = run env (app3 k (callFn env f arg st)) := callFnK_adequate env f arg st k

local macro "adeq_cases" : tactic =>
  `(tactic| (generalize eval _ _ _ _ = t at *; obtain ⟨r, s, ev⟩ := t; cases r <;>
      (try (cases ‹Value› <;> try (cases ‹Bool›))) <;>
      simp only [*, callFnK_adequate', app3]))

local macro "adeq_casesL" : tactic =>
  `(tactic| (generalize evalList _ _ _ _ _ = t at *; obtain ⟨r, s, ev⟩ := t; cases r <;>
      simp only [*, callFnK_adequate', app3]))
local macro "adeq_casesM" : tactic =>
  `(tactic| (generalize evalMap _ _ _ _ _ = t at *; obtain ⟨r, s, ev⟩ := t; cases r <;>
      simp only [*, callFnK_adequate', app3]))

theorem evalK_adequate_all {α : Type} (env : Env) :
    (∀ rp e st (k : Kont α), run env (evalK env rp e st k) = run env (app3 k (eval env rp e st))) ∧
    (∀ rp i kvs st (k : KontM α), run env (evalMapK env rp i kvs st k) = run env (app3 k (evalMap env rp i kvs st))) ∧
    (∀ rp i es st (k : KontL α), run env (evalListK env rp i es st k) = run env (app3 k (evalList env rp i es st))) := by
  apply evalK.mutual_induct (α := α) env
    (motive_1 := fun rp e st k => run env (evalK env rp e st k) = run env (app3 k (eval env rp e st)))
    (motive_2 := fun rp i kvs st k => run env (evalMapK env rp i kvs st k) = run env (app3 k (evalMap env rp i kvs st)))
    (motive_3 := fun rp i es st k => run env (evalListK env rp i es st k) = run env (app3 k (evalList env rp i es st)))
  all_goals (intros; simp only [evalK, evalListK, evalMapK, eval, evalList, evalMap])
  all_goals first
    | rfl
    | (simp only [*, callFnK_adequate', app3]; done)
    | (simp only [*, callFnK_adequate', app3]; adeq_cases; done)
    | (simp only [*, callFnK_adequate', app3]; adeq_cases <;> (try adeq_cases); done)
    | (simp only [*, callFnK_adequate', app3]; adeq_casesL; done)
    | (simp only [*, callFnK_adequate', app3]; adeq_casesM; done)
    | (simp only [*, callFnK_adequate', app3]; adeq_cases <;> (try adeq_casesL); done)
    | (simp only [*, callFnK_adequate', app3]; adeq_cases <;> (try adeq_casesM); done)

/-- the resumption semantics run to completion is the big-step semantics -/
theorem adequacy (env : Env) (e : Expr) : run env (exprTask env e) = eval env [] e St.init := by
  unfold exprTask
  rw [(evalK_adequate_all env).1]; rfl

theorem evalK_adequate {α : Type} (env : Env) (rp : List Nat) (e : Expr) (st : St) (k : Kont α) :
    run env (evalK env rp e st k) = run env (k (eval env rp e st).1 (eval env rp e st).2.1 (eval env rp e st).2.2) :=
  (evalK_adequate_all env).1 rp e st k

theorem evalRulesK_adequate {α : Type} (env : Env) : ∀ (rules : List Expr) (i : Nat) (st : St)
    (k : List (Res Value) → St → List Event → Resumption α),
    run env (evalRulesK env i rules st k) =
      run env (k (evalRules env i rules st).1 (evalRules env i rules st).2.1 (evalRules env i rules st).2.2) := by
  intro rules
  induction rules with
  | nil => intro i st k; rfl
  | cons e es ih =>
    intro i st k
    simp only [evalRulesK, evalRules]
    rw [evalK_adequate, ih]

/-- a whole ruleset evaluation run to completion is `evaluateValue` -/
theorem ruleset_adequacy (env : Env) (rules : List Expr) : run env (rulesetTask env rules) = evaluateValue env rules := by
  unfold rulesetTask evaluateValue
  rw [evalRulesK_adequate]; rfl

end Reval
