/-
  Lemmas/AsciiCase.lean — the ASCII case maps, character by character (all 128 characters by kernel evaluation) and over strings.
-/
import RevalModel.Impl.Eval

namespace Reval
open Str

theorem ascii_char_facts : ∀ n : Fin 128,
    asciiUpper (asciiUpper (Char.ofNat n)) = asciiUpper (Char.ofNat n) ∧
    asciiLower (asciiLower (Char.ofNat n)) = asciiLower (Char.ofNat n) ∧
    asciiLower (asciiUpper (Char.ofNat n)) = asciiLower (Char.ofNat n) ∧
    asciiUpper (asciiLower (Char.ofNat n)) = asciiUpper (Char.ofNat n) ∧
    (asciiUpper (Char.ofNat n)).toNat < 128 ∧ (asciiLower (Char.ofNat n)).toNat < 128 := by
  decide +kernel

theorem ascii_char (c : Char) (h : c.toNat < 128) :
    asciiUpper (asciiUpper c) = asciiUpper c ∧ asciiLower (asciiLower c) = asciiLower c ∧
    asciiLower (asciiUpper c) = asciiLower c ∧ asciiUpper (asciiLower c) = asciiUpper c ∧
    (asciiUpper c).toNat < 128 ∧ (asciiLower c).toNat < 128 := by
  have := ascii_char_facts ⟨c.toNat, h⟩
  simpa [Char.ofNat_toNat] using this


theorem isAscii_iff (s : Str) : isAscii s = true ↔ ∀ c ∈ s, c.toNat < 128 := by
  simp [isAscii, List.all_eq_true]

theorem map_ascii (s : Str) (h : isAscii s = true) :
    isAscii (s.map asciiUpper) = true ∧ isAscii (s.map asciiLower) = true ∧
    (s.map asciiUpper).map asciiUpper = s.map asciiUpper ∧ (s.map asciiLower).map asciiLower = s.map asciiLower ∧
    (s.map asciiUpper).map asciiLower = s.map asciiLower ∧ (s.map asciiLower).map asciiUpper = s.map asciiUpper := by
  rw [isAscii_iff] at h
  refine ⟨?_, ?_, ?_, ?_, ?_, ?_⟩
  · rw [isAscii_iff]; intro c hc; obtain ⟨d, hd, rfl⟩ := List.mem_map.1 hc; exact (ascii_char d (h d hd)).2.2.2.2.1
  · rw [isAscii_iff]; intro c hc; obtain ⟨d, hd, rfl⟩ := List.mem_map.1 hc; exact (ascii_char d (h d hd)).2.2.2.2.2
  · rw [List.map_map]; apply List.map_congr_left; intro c hc; exact (ascii_char c (h c hc)).1
  · rw [List.map_map]; apply List.map_congr_left; intro c hc; exact (ascii_char c (h c hc)).2.1
  · rw [List.map_map]; apply List.map_congr_left; intro c hc; exact (ascii_char c (h c hc)).2.2.1
  · rw [List.map_map]; apply List.map_congr_left; intro c hc; exact (ascii_char c (h c hc)).2.2.2.1

end Reval
