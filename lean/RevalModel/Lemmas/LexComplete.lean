/-
  Lemmas/LexComplete.lean — the vocabulary of the layout theorem (`PTok`, Lemmas/LexLayout) is complete: every token the
  lexer produces, for whatever text, is in it with the text the token carries (`lex_ptok`).  The number, exponent and
  string matchers are inverted (`matchFrac_shape`, `matchExp_shape`, `matchNum_shape`, `scanStr_take`: what they consume
  has the shape of the token class's pattern), keywords by the finite table, identifiers by Lemmas/ParsedPrintable.
-/
import RevalModel.Lemmas.LexLayout
import RevalModel.Lemmas.ParsedPrintable

namespace Reval.LexC
open Reval Reval.Lex

theorem take_cw_all (p : Char → Bool) (x : Str) : (x.take (countWhile p x)).all p = true := by
  induction x with
  | nil => simp [countWhile]
  | cons a x ih =>
    simp only [countWhile]
    split
    · rename_i hp; simp [List.take, hp, ih]
    · simp

theorem take_cw_len (p : Char → Bool) (x : Str) : (x.take (countWhile p x)).length = countWhile p x := by
  simp [List.length_take, Nat.min_eq_left (countWhile_le p x)]

theorem take_add_drop (s : Str) (k m : Nat) : s.take (k + m) = s.take k ++ (s.drop k).take m := by
  induction s generalizing k with
  | nil => simp
  | cons a s ih =>
    cases k with
    | zero => simp
    | succ k =>
      have : k + 1 + m = (k + m) + 1 := by omega
      rw [this]; simp [List.take_succ_cons, ih]

/-- whatever the mantissa matcher accepts has the shape `[0-9]*\.?[0-9]+` -/
theorem matchFrac_shape (s : Str) (b : Nat) (h : matchFrac s = some b) : b ≤ s.length ∧ FracText (s.take b) := by
  unfold matchFrac at h
  simp only [] at h
  have hk := countWhile_le isDigit s
  have hall := take_cw_all isDigit s
  split at h
  · rename_i r hdrop
    have hlen : s.length = countWhile isDigit s + 1 + r.length := by
      have := congrArg List.length hdrop
      simp only [List.length_drop, List.length_cons] at this; omega
    have hm := countWhile_le isDigit r
    split at h
    · rename_i hpos
      cases h
      refine ⟨by omega, ?_⟩
      have : s.take (countWhile isDigit s + 1 + countWhile isDigit r) =
          s.take (countWhile isDigit s) ++ '.' :: r.take (countWhile isDigit r) := by
        rw [Nat.add_assoc, take_add_drop, hdrop, Nat.add_comm 1, List.take_succ_cons]
      rw [this]
      refine FracText.frac _ _ hall (take_cw_all isDigit r) ?_
      intro e
      have := congrArg List.length e
      rw [take_cw_len] at this; simp at this; omega
    · split at h
      · rename_i hpos
        cases h
        refine ⟨hk, FracText.int _ hall ?_⟩
        intro e
        have := congrArg List.length e
        rw [take_cw_len] at this; simp at this; omega
      · cases h
  · split at h
    · rename_i hpos
      cases h
      refine ⟨hk, FracText.int _ hall ?_⟩
      intro e
      have := congrArg List.length e
      rw [take_cw_len] at this; simp at this; omega
    · cases h


/-- whatever the exponent matcher consumes has the shape `([eE][-+]?[0-9]+)?` -/
theorem matchExp_shape (s : Str) : matchExp s ≤ s.length ∧ ExpText (s.take (matchExp s)) := by
  unfold matchExp
  split
  · rename_i c r
    split
    · rename_i hc
      have he : c = 'e' ∨ c = 'E' := by simpa using hc
      -- the sign
      have key : ∀ (sg : Nat) (sgt : Str), IsSign sgt → sgt.length = sg → r.take sg = sgt →
          (if countWhile isDigit (r.drop sg) > 0 then 1 + sg + countWhile isDigit (r.drop sg) else 0) ≤ (c :: r).length ∧
          ExpText ((c :: r).take (if countWhile isDigit (r.drop sg) > 0 then 1 + sg + countWhile isDigit (r.drop sg) else 0)) := by
        intro sg sgt hs hl ht
        have hd := countWhile_le isDigit (r.drop sg)
        have hsl : sg ≤ r.length := by
          have := congrArg List.length ht
          simp only [List.length_take] at this; omega
        split
        · rename_i hpos
          refine ⟨by simp only [List.length_cons, List.length_drop] at hd ⊢; omega, ?_⟩
          have : (c :: r).take (1 + sg + countWhile isDigit (r.drop sg)) =
              c :: (sgt ++ (r.drop sg).take (countWhile isDigit (r.drop sg))) := by
            rw [Nat.add_assoc, Nat.add_comm 1, List.take_succ_cons, take_add_drop, ht]
          rw [this]
          refine ExpText.some c sgt _ he hs (take_cw_all isDigit _) ?_
          intro e
          have := congrArg List.length e
          rw [take_cw_len] at this; simp at this; omega
        · exact ⟨Nat.zero_le _, by simpa using ExpText.none⟩
      split
      · rename_i tl; exact key 1 ['+'] (Or.inr (Or.inl rfl)) rfl rfl
      · rename_i tl; exact key 1 ['-'] (Or.inr (Or.inr rfl)) rfl rfl
      · exact key 0 [] (Or.inl rfl) rfl (by simp)
    · exact ⟨Nat.zero_le _, by simpa using ExpText.none⟩
  · exact ⟨Nat.zero_le _, by simpa using ExpText.none⟩


/-- whatever the number matcher consumes after the prefix letter has the shape of that literal class -/
theorem matchNum_shape (c : Char) (rest : Str) (n : Nat) (h : matchNum c rest = some n) :
    n ≤ rest.length ∧ (if (c == 'i') = true then IntBody (rest.take n) else if (c == 'f') = true then FloatBody (rest.take n) else DecBody (rest.take n)) := by
  have key : ∀ (sg : Nat) (sgt : Str), IsSign sgt → sgt.length = sg → rest.take sg = sgt →
      (if (c == 'i') = true then (if countWhile isDigit (rest.drop sg) > 0 then some (sg + countWhile isDigit (rest.drop sg)) else none)
       else (matchFrac (rest.drop sg)).bind (fun b => if (c == 'f') = true then some (sg + b + matchExp ((rest.drop sg).drop b)) else some (sg + b))) = some n →
      n ≤ rest.length ∧ (if (c == 'i') = true then IntBody (rest.take n) else if (c == 'f') = true then FloatBody (rest.take n) else DecBody (rest.take n)) := by
    intro sg sgt hs hl ht h
    have hsl : sg ≤ rest.length := by
      have := congrArg List.length ht
      simp only [List.length_take] at this; omega
    split at h
    · rename_i hi
      simp only [hi, if_true]
      split at h
      · rename_i hpos
        cases h
        have hd := countWhile_le isDigit (rest.drop sg)
        refine ⟨by simp only [List.length_drop] at hd; omega, ⟨sgt, _, by rw [take_add_drop, ht], hs, take_cw_all isDigit _, ?_⟩⟩
        intro e
        have := congrArg List.length e
        rw [take_cw_len] at this; simp at this; omega
      · cases h
    · rename_i hi
      simp only [hi, if_false, Bool.false_eq_true]
      cases hb : matchFrac (rest.drop sg) with
      | none => simp [hb] at h
      | some b =>
        simp only [hb, Option.bind_some] at h
        obtain ⟨hble, hfr⟩ := matchFrac_shape _ _ hb
        simp only [List.length_drop] at hble
        split at h
        · rename_i hf
          cases h
          simp only [hf, if_true]
          obtain ⟨hxle, hx⟩ := matchExp_shape ((rest.drop sg).drop b)
          simp only [List.length_drop] at hxle
          refine ⟨by omega, ⟨sgt, _, _, ?_, hs, hfr, hx⟩⟩
          rw [Nat.add_assoc, take_add_drop, ht, take_add_drop]
        · rename_i hf
          cases h
          simp only [hf, if_false, Bool.false_eq_true]
          refine ⟨by omega, ⟨sgt, _, ?_, hs, hfr⟩⟩
          rw [take_add_drop, ht]
  cases rest with
  | nil => simp [matchNum, matchFrac, countWhile] at h
  | cons a y =>
    by_cases hp : a = '+'
    · subst hp
      rw [matchNum_signed c '+' y (Or.inl rfl)] at h
      exact key 1 ['+'] (Or.inr (Or.inl rfl)) rfl rfl (by simpa using h)
    · by_cases hm : a = '-'
      · subst hm
        rw [matchNum_signed c '-' y (Or.inr rfl)] at h
        exact key 1 ['-'] (Or.inr (Or.inr rfl)) rfl rfl (by simpa using h)
      · rw [matchNum_nosign c a y hp hm] at h
        exact key 0 [] (Or.inl rfl) rfl (by simp) (by simpa using h)


/-- the string scanner's result is the length of a prefix that the scanner accepts on its own -/
theorem scanStr_take (x : Str) : ∀ n, scanStr x = some n → n ≤ x.length ∧ scanStr (x.take n) = some n := by
  fun_induction scanStr x with
  | case1 => intro n h; cases h
  | case2 => intro n h; cases h
  | case3 c r0 hc => intro n h; cases h
  | case4 c r0 hc ih =>
    intro n h
    cases hs : scanStr r0 with
    | none => simp [hs] at h
    | some m =>
      simp only [hs, Option.map_some, Option.some.injEq] at h
      obtain ⟨hle, ht⟩ := ih m hs
      subst h
      refine ⟨by simp; omega, ?_⟩
      simp only [List.take_succ_cons, scanStr, hc, if_false, Bool.false_eq_true, ht, Option.map_some]
  | case5 c r0 hnb hq hquote =>
    intro n h
    cases h
    have hq' : c = '"' := by simpa using hquote
    subst hq'
    exact ⟨by simp, by simp [scanStr]⟩
  | case6 c r0 hnb hq hnq ih =>
    intro n h
    have hc : c ≠ '\\' := by
      intro e
      cases r0 with
      | nil => exact hnb e rfl
      | cons d r1 => exact hq d r1 e rfl
    cases hs : scanStr r0 with
    | none => simp [hs] at h
    | some m =>
      simp only [hs, Option.map_some, Option.some.injEq] at h
      obtain ⟨hle, ht⟩ := ih m hs
      subst h
      refine ⟨by simp; omega, ?_⟩
      simp only [List.take_succ_cons]
      rw [scanStr.eq_def]
      split
      · rename_i e; cases e
      · rename_i e; simp only [List.cons.injEq] at e; exact absurd e.1 hc
      · rename_i e; simp only [List.cons.injEq] at e; exact absurd e.1 hc
      · rename_i c' r' _ _ e
        simp only [List.cons.injEq] at e
        obtain ⟨rfl, rfl⟩ := e
        simp only [hnq, if_false, Bool.false_eq_true, ht, Option.map_some]

/-- every keyword is a word of the shape the word lemmas need -/
theorem keywords_shape : ∀ w ∈ keywords, ∃ c rest, w = c :: rest ∧ isAlpha c = true ∧ rest.all isIdc = true ∧
    (∀ a rest', rest = a :: rest' → isDigit a = false) ∧ rest ≠ [] := by
  intro w hw
  simp only [keywords, List.mem_cons, List.not_mem_nil, or_false] at hw
  rcases hw with rfl | rfl | rfl | rfl | rfl | rfl | rfl | rfl | rfl | rfl | rfl | rfl | rfl | rfl | rfl | rfl | rfl | rfl | rfl | rfl | rfl | rfl | rfl | rfl | rfl | rfl | rfl | rfl | rfl | rfl | rfl | rfl | rfl | rfl <;>
    exact ⟨_, _, rfl, by decide, by decide, by intro a r e; cases e; decide, by simp⟩


theorem punct1_ptok (c : Char) (h : punct1.contains c = true) : PTok (.p [c]) [c] := by
  simp only [punct1, List.contains_iff_mem, List.mem_cons, List.not_mem_nil, or_false] at h
  rcases h with rfl | rfl | rfl | rfl | rfl | rfl | rfl | rfl | rfl | rfl | rfl | rfl | rfl | rfl | rfl | rfl | rfl | rfl | rfl | rfl | rfl | rfl | rfl
  all_goals first
    | exact PTok.p1 _ (by decide)
    | exact PTok.p1x _ (by decide)

theorem punct2_ptok (c d : Char) (h : punct2.contains [c, d] = true) : PTok (.p [c, d]) [c, d] := by
  simp only [punct2, List.contains_iff_mem, List.mem_cons, List.not_mem_nil, or_false, List.cons.injEq, and_true] at h
  rcases h with ⟨rfl, rfl⟩ | ⟨rfl, rfl⟩ | ⟨rfl, rfl⟩ | ⟨rfl, rfl⟩ <;> exact PTok.p2 _ (by decide)

theorem stepWord_ptok (c : Char) (rest : Str) (hc : isAlpha c = true) : PTok (stepWord c rest).1 (tokText (stepWord c rest).1) := by
  cases ht : (stepWord c rest).1 with
  | ident n => exact PTok.ident n (PP.stepWord_ident c rest n hc ht)
  | kw w =>
    simp only [tokText]
    -- only `wordTok` makes keywords
    have hw : wordTok c rest = .kw w := by
      unfold stepWord at ht
      split at ht
      · split at ht
        · simp only [mkNum] at ht; split at ht
          · cases ht
          · split at ht <;> cases ht
        · exact ht
      · exact ht
    unfold wordTok at hw
    split at hw
    · rename_i hk
      simp only [Tok.kw.injEq] at hw; subst hw
      obtain ⟨c', r', e, h1, h2, h3, h4⟩ := keywords_shape _ (by simpa [List.contains_iff_mem] using hk)
      exact PTok.kw _ ⟨hk, c', r', e, h1, h2, fun _ => h3, h4⟩
    · cases hw
  | int tx | float tx | dec tx =>
    simp only [tokText]
    unfold stepWord at ht
    split at ht
    · rename_i n hn
      have hmn : matchNum c rest = some n ∧ (c = 'i' ∨ c = 'f' ∨ c = 'd') := by
        split at hn
        · rename_i hg; exact ⟨hn, by simpa [or_assoc] using hg⟩
        · cases hn
      obtain ⟨hle, hshape⟩ := matchNum_shape c rest n hmn.1
      split at ht
      · simp only [mkNum] at ht
        split at ht
        · rename_i hi
          first
            | (simp only [Tok.int.injEq] at ht; subst ht
               have : c = 'i' := by simpa using hi
               subst this
               simp only [beq_self_eq_true, if_true] at hshape
               exact PTok.intg _ hshape)
            | cases ht
        · rename_i hi
          split at ht
          · rename_i hf
            first
              | (simp only [Tok.float.injEq] at ht; subst ht
                 have : c = 'f' := by simpa using hf
                 subst this
                 simp only [show ('f' == 'i') = false by decide, Bool.false_eq_true, if_false, beq_self_eq_true, if_true] at hshape
                 exact PTok.floatg _ hshape)
              | cases ht
          · rename_i hf
            first
              | (simp only [Tok.dec.injEq] at ht; subst ht
                 have hd : c = 'd' := by
                   rcases hmn.2 with h | h | h
                   · subst h; simp at hi
                   · subst h; simp at hf
                   · exact h
                 subst hd
                 simp only [show ('d' == 'i') = false by decide, show ('d' == 'f') = false by decide, Bool.false_eq_true, if_false] at hshape
                 exact PTok.decg _ hshape)
              | cases ht
      · unfold wordTok at ht; split at ht <;> cases ht
    · unfold wordTok at ht; split at ht <;> cases ht
  | index _ | str _ | hex _ | oct _ | bin _ | p _ =>
    exfalso
    unfold stepWord at ht
    split at ht
    · split at ht
      · simp only [mkNum] at ht; split at ht
        · cases ht
        · split at ht <;> cases ht
      · unfold wordTok at ht; split at ht <;> cases ht
    · unfold wordTok at ht; split at ht <;> cases ht


theorem stepDigit_ptok (c : Char) (rest : Str) (hc : isDigit c = true) : PTok (stepDigit c rest).1 (tokText (stepDigit c rest).1) := by
  have hidx : PTok (Tok.index (c :: rest.take (countWhile isDigit rest))) (c :: rest.take (countWhile isDigit rest)) :=
    PTok.index c _ hc (take_cw_all isDigit rest)
  unfold stepDigit
  split
  · rename_i n mk heq
    split
    · -- a radix literal
      have hc0 : c = '0' ∧ matchRadix rest = some (n, mk) := by
        split at heq
        · rename_i h0; exact ⟨by simpa using h0, heq⟩
        · cases heq
      obtain ⟨rfl, hr⟩ := hc0
      unfold matchRadix at hr
      split at hr
      · rename_i r
        split at hr
        · rename_i hpos
          simp only [Option.some.injEq, Prod.mk.injEq] at hr
          obtain ⟨rfl, rfl⟩ := hr
          simp only [tokText, Nat.add_comm 1, List.take_succ_cons]
          exact PTok.hex _ (take_cw_all isHex _) (by intro e; have := congrArg List.length e; rw [take_cw_len] at this; simp at this; omega)
        · cases hr
      · rename_i r
        split at hr
        · rename_i hpos
          simp only [Option.some.injEq, Prod.mk.injEq] at hr
          obtain ⟨rfl, rfl⟩ := hr
          simp only [tokText, Nat.add_comm 1, List.take_succ_cons]
          exact PTok.oct _ (take_cw_all isOct _) (by intro e; have := congrArg List.length e; rw [take_cw_len] at this; simp at this; omega)
        · cases hr
      · rename_i r
        split at hr
        · rename_i hpos
          simp only [Option.some.injEq, Prod.mk.injEq] at hr
          obtain ⟨rfl, rfl⟩ := hr
          simp only [tokText, Nat.add_comm 1, List.take_succ_cons]
          exact PTok.bin _ (take_cw_all isBin _) (by intro e; have := congrArg List.length e; rw [take_cw_len] at this; simp at this; omega)
        · cases hr
      · cases hr
    · exact hidx
  · exact hidx

/-- **every token the lexer produces is of the vocabulary**, with the text the token carries -/
theorem step_ptok (s : Str) (t : Tok) (rest : Str) (h : step s = some (some t, rest)) : PTok t (tokText t) := by
  unfold step at h
  repeat' split at h
  all_goals (try (simp at h; done))
  all_goals (simp only [Option.some.injEq, Prod.mk.injEq] at h; obtain ⟨h1, h2⟩ := h)
  · subst h1; exact stepWord_ptok _ _ ‹_›
  · subst h1; exact stepDigit_ptok _ _ ‹_›
  · rename_i hs
    unfold stepString at hs
    split at hs
    · rename_i n hn
      simp only [Option.some.injEq, Prod.mk.injEq] at hs
      rw [← h1, ← hs.1]
      obtain ⟨hle, ht⟩ := scanStr_take _ n hn
      simp only [tokText]
      refine PTok.strRaw _ ?_
      rw [ht]; simp [List.length_take, Nat.min_eq_left hle]
    · cases hs
  · rename_i hs
    unfold stepPunct at hs
    split at hs
    · split at hs
      · rename_i hp2
        simp only [Option.some.injEq, Prod.mk.injEq] at hs
        rw [← h1, ← hs.1]; exact punct2_ptok _ _ hp2
      · split at hs
        · rename_i hp1
          simp only [Option.some.injEq, Prod.mk.injEq] at hs
          rw [← h1, ← hs.1]; exact punct1_ptok _ hp1
        · cases hs
    · split at hs
      · rename_i hp1
        simp only [Option.some.injEq, Prod.mk.injEq] at hs
        rw [← h1, ← hs.1]; exact punct1_ptok _ hp1
      · cases hs

theorem lexAux_ptok : ∀ (f : Nat) (s : Str) (ts : List Tok), lexAux f s = some ts → ∀ t ∈ ts, PTok t (tokText t) := by
  intro f
  induction f with
  | zero =>
    intro s ts h
    cases s with
    | nil => rw [lexAux_nil] at h; cases h; intro t ht; cases ht
    | cons c cs => rw [lexAux_zero] at h; cases h
  | succ f ih =>
    intro s ts h
    cases s with
    | nil => rw [lexAux_nil] at h; cases h; intro t ht; cases ht
    | cons c cs =>
      cases hstep : step (c :: cs) with
      | none => rw [lexAux_succ_none f c cs hstep] at h; cases h
      | some pr =>
        obtain ⟨ot, rest⟩ := pr
        cases ot with
        | none => rw [lexAux_succ_skip f c cs rest hstep] at h; exact ih _ _ h
        | some t =>
          rw [lexAux_succ_tok f c cs rest t hstep] at h
          simp only [Option.map_eq_some_iff] at h
          obtain ⟨ts', hts', rfl⟩ := h
          intro x hx
          rcases List.mem_cons.1 hx with rfl | hx
          · exact step_ptok _ _ _ hstep
          · exact ih _ _ hts' x hx

/-- every token of every text is of the vocabulary of the layout theorem -/
theorem lex_ptok (s : Str) (ts : List Tok) (h : lex s = some ts) : ∀ t ∈ ts, PTok t (tokText t) := lexAux_ptok _ s ts h

end Reval.LexC
