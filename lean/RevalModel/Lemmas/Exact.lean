/-
  Lemmas/Exact.lean — range-sensitive primitives are exact over unbounded `Int`: the result is the
  mathematical one when it is in range and an *error* otherwise (never wrapped, saturated or truncated).
-/
import RevalModel.Lemmas.Table

namespace Reval

theorem checked_eq (n : Int) : I128.checked n = if I128.inRange n then some n else none := rfl

theorem int_add_exact (o : Oracle) (a b : Int) :
    applyBin o .add (.int a) (.int b) =
      if I128.inRange (a + b) then .ok (.int (a + b)) else .err (.outOfBounds (.int a)) := by
  simp only [applyBin, Impl.add, checked_eq]; by_cases h : I128.inRange (a + b) = true <;> simp [h]

theorem int_sub_exact (o : Oracle) (a b : Int) :
    applyBin o .sub (.int a) (.int b) =
      if I128.inRange (a - b) then .ok (.int (a - b)) else .err (.outOfBounds (.int a)) := by
  simp only [applyBin, Impl.sub, checked_eq]; by_cases h : I128.inRange (a - b) = true <;> simp [h]

theorem int_mult_exact (o : Oracle) (a b : Int) :
    applyBin o .mult (.int a) (.int b) =
      if I128.inRange (a * b) then .ok (.int (a * b)) else .err (.outOfBounds (.int a)) := by
  simp only [applyBin, Impl.mult, checked_eq]; by_cases h : I128.inRange (a * b) = true <;> simp [h]

theorem int_neg_exact (o : Oracle) (a : Int) :
    applyUn o .neg (.int a) =
      if I128.inRange (-a) then .ok (.int (-a)) else .err (.outOfBounds (.int a)) := by
  simp only [applyUn, Impl.neg, checked_eq]; by_cases h : I128.inRange (-a) = true <;> simp [h]

theorem int_div_exact (o : Oracle) (a b : Int) :
    applyBin o .div (.int a) (.int b) =
      if b = 0 ∨ (a = I128.min ∧ b = -1) then .err .divByZero else .ok (.int (Int.tdiv a b)) := by
  simp only [applyBin, Impl.div, I128.checkedDiv]
  by_cases h0 : b = 0
  · simp [h0]
  · by_cases h1 : a = I128.min ∧ b = -1
    · simp [h0, h1]
    · simp [h0, h1]

theorem int_rem_exact (o : Oracle) (a b : Int) :
    applyBin o .rem (.int a) (.int b) =
      if b = 0 ∨ (a = I128.min ∧ b = -1) then .err .divByZero else .ok (.int (Int.tmod a b)) := by
  simp only [applyBin, Impl.rem, I128.checkedRem]
  by_cases h0 : b = 0
  · simp [h0]
  · by_cases h1 : a = I128.min ∧ b = -1
    · simp [h0, h1]
    · simp [h0, h1]

/-- `int(Float)`: the truncated value when it is an i128, otherwise (NaN, ±inf, beyond ±2^127) InvalidCast -/
theorem toInt_float_exact (o : Oracle) (f : F64) :
    applyUn o .toInt (.float f) =
      match F64.truncToInt f with
      | some n => if I128.inRange n then .ok (.int n) else .err (.invalidCast (.float f))
      | none => .err (.invalidCast (.float f)) := by
  simp only [applyUn, Impl.toInt]; cases F64.truncToInt f <;> simp

/-- `dec(Int)`: exact when |n| fits 96 bits, otherwise InvalidCast -/
theorem toDec_int_exact (o : Oracle) (n : Int) :
    applyUn o .toDec (.int n) =
      if n.natAbs ≤ Dec.maxMant then .ok (.dec ⟨decide (n < 0), n.natAbs, 0⟩) else .err (.invalidCast (.int n)) := by
  simp only [applyUn, Impl.toDec, Dec.ofInt]; split <;> simp_all

theorem mkDuration_exact_lit (u : Int) (hu : u = 604800 ∨ u = 86400 ∨ u = 3600 ∨ u = 60 ∨ u = 1) (v : Value) (i : Int) :
    Impl.mkDuration u v i =
      if Time.durInRange (i * u * Time.nsPerSec) then .ok (.duration (i * u * Time.nsPerSec))
      else .err (.outOfBounds v) := by
  have key : Time.durInRange (i * u * Time.nsPerSec) = true → I64.inRange i = true ∧ I64.inRange (i * u) = true := by
    intro h
    simp only [Time.durInRange, Bool.and_eq_true, decide_eq_true_eq] at h
    simp only [I64.inRange, IntKind.inRange, IntKind.i64, IntKind.lo, IntKind.hi, Bool.and_eq_true,
      decide_eq_true_eq, if_true]
    simp only [Time.durMax, Time.nsPerSec] at h
    rcases hu with rfl | rfl | rfl | rfl | rfl <;> omega
  unfold Impl.mkDuration Time.tryUnits Time.trySeconds
  by_cases h : Time.durInRange (i * u * Time.nsPerSec) = true
  · have ⟨h1, h2⟩ := key h
    simp [h, h1, h2]
  · by_cases h1 : I64.inRange i = true <;> by_cases h2 : I64.inRange (i * u) = true <;> simp [h, h1, h2]

/-- `week(Int)` … `second(Int)`: `n` units exactly when that duration exists, otherwise ValueOutOfBounds
    (never `n` reduced modulo 2^64) -/
theorem week_int_exact (o : Oracle) (i : Int) :
    applyUn o .week (.int i) =
      if Time.durInRange (i * 604800 * Time.nsPerSec) then .ok (.duration (i * 604800 * Time.nsPerSec))
      else .err (.outOfBounds (.int i)) := by
  simp only [applyUn, Impl.week]; exact mkDuration_exact_lit 604800 (by simp) _ i
theorem day_int_exact (o : Oracle) (i : Int) :
    applyUn o .day (.int i) =
      if Time.durInRange (i * 86400 * Time.nsPerSec) then .ok (.duration (i * 86400 * Time.nsPerSec))
      else .err (.outOfBounds (.int i)) := by
  simp only [applyUn, Impl.day]; exact mkDuration_exact_lit 86400 (by simp) _ i
theorem hour_int_exact (o : Oracle) (i : Int) :
    applyUn o .hour (.int i) =
      if Time.durInRange (i * 3600 * Time.nsPerSec) then .ok (.duration (i * 3600 * Time.nsPerSec))
      else .err (.outOfBounds (.int i)) := by
  simp only [applyUn, Impl.hour]; exact mkDuration_exact_lit 3600 (by simp) _ i
theorem minute_int_exact (o : Oracle) (i : Int) :
    applyUn o .minute (.int i) =
      if Time.durInRange (i * 60 * Time.nsPerSec) then .ok (.duration (i * 60 * Time.nsPerSec))
      else .err (.outOfBounds (.int i)) := by
  simp only [applyUn, Impl.minute]; exact mkDuration_exact_lit 60 (by simp) _ i
theorem second_int_exact (o : Oracle) (i : Int) :
    applyUn o .second (.int i) =
      if Time.durInRange (i * 1 * Time.nsPerSec) then .ok (.duration (i * 1 * Time.nsPerSec))
      else .err (.outOfBounds (.int i)) := by
  simp only [applyUn, Impl.second]; exact mkDuration_exact_lit 1 (by simp) _ i

/-- `duration(Int)`: that many seconds exactly, or InvalidCast -/
theorem duration_int_exact (o : Oracle) (i : Int) :
    applyUn o .duration (.int i) =
      if Time.durInRange (i * Time.nsPerSec) then .ok (.duration (i * Time.nsPerSec))
      else .err (.invalidCast (.int i)) := by
  have key : Time.durInRange (i * Time.nsPerSec) = true → I64.inRange i = true := by
    intro h
    simp only [Time.durInRange, Bool.and_eq_true, decide_eq_true_eq] at h
    simp only [I64.inRange, IntKind.inRange, IntKind.i64, IntKind.lo, IntKind.hi, Bool.and_eq_true,
      decide_eq_true_eq, if_true]
    simp only [Time.durMax, Time.nsPerSec] at h
    omega
  simp only [applyUn, Impl.duration, Time.trySeconds]
  by_cases h : Time.durInRange (i * Time.nsPerSec) = true
  · simp [h, key h]
  · by_cases h1 : I64.inRange i = true <;> simp [h, h1]

/-- `datetime(Int)`: that Unix timestamp exactly, or InvalidCast -/
theorem dateTime_int_exact (o : Oracle) (i : Int) :
    applyUn o .dateTime (.int i) =
      if Time.dtInRange (i * Time.nsPerSec) then .ok (.dateTime (i * Time.nsPerSec))
      else .err (.invalidCast (.int i)) := by
  have key : Time.dtInRange (i * Time.nsPerSec) = true → I64.inRange i = true := by
    intro h
    simp only [Time.dtInRange, Bool.and_eq_true, decide_eq_true_eq] at h
    simp only [I64.inRange, IntKind.inRange, IntKind.i64, IntKind.lo, IntKind.hi, Bool.and_eq_true,
      decide_eq_true_eq, if_true]
    simp only [Time.dtMin, Time.dtMax, Time.nsPerSec] at h
    omega
  simp only [applyUn, Impl.dateTime, Time.fromTimestamp]
  by_cases h : Time.dtInRange (i * Time.nsPerSec) = true
  · simp [h, key h]
  · by_cases h1 : I64.inRange i = true <;> simp [h, h1]

/-- `DateTime ± Duration`, `Duration − Duration`: exact or ValueOutOfBounds -/
theorem dt_add_dur_exact (o : Oracle) (a b : Int) :
    applyBin o .add (.dateTime a) (.duration b) =
      if Time.dtInRange (a + b) then .ok (.dateTime (a + b)) else .err (.outOfBounds (.dateTime a)) := by
  simp only [applyBin, Impl.add]
theorem dt_sub_dur_exact (o : Oracle) (a b : Int) :
    applyBin o .sub (.dateTime a) (.duration b) =
      if Time.dtInRange (a - b) then .ok (.dateTime (a - b)) else .err (.outOfBounds (.dateTime a)) := by
  simp only [applyBin, Impl.sub]
theorem dur_sub_dur_exact (o : Oracle) (a b : Int) :
    applyBin o .sub (.duration a) (.duration b) =
      if Time.durInRange (a - b) then .ok (.duration (a - b)) else .err (.outOfBounds (.duration a)) := by
  simp only [applyBin, Impl.sub]
/-- the difference of two representable date-times is always a representable duration -/
theorem dt_sub_dt_inRange (a b : Int) (ha : Time.dtInRange a = true) (hb : Time.dtInRange b = true) :
    Time.durInRange (a - b) = true := by
  simp only [Time.dtInRange, Time.durInRange, Bool.and_eq_true, decide_eq_true_eq] at *
  simp only [Time.dtMin, Time.dtMax, Time.durMax, Time.nsPerSec] at *
  omega

end Reval
