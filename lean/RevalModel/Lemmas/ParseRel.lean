/-
  Lemmas/ParseRel.lean — fuel-free parsing relations ("for all sufficiently large fuel the function returns …")
  and their introduction rules, one per alternative of the grammar.
-/
import RevalModel.Spec.Grammar

namespace Reval.G
open Reval

def PIf (o : Oracle) (ts : List Tok) (e : Expr) (r : List Tok) : Prop := ∃ f0, ∀ f, f0 ≤ f → pIf o f ts = .ok e r
def PBin (o : Oracle) (k : Nat) (ts : List Tok) (e : Expr) (r : List Tok) : Prop := ∃ f0, ∀ f, f0 ≤ f → pBin o f k ts = .ok e r
def LBin (o : Oracle) (k : Nat) (acc : Expr) (ts : List Tok) (e : Expr) (r : List Tok) : Prop :=
  ∃ f0, ∀ f, f0 ≤ f → pBinLoop o f k acc ts = .ok e r
def PCont (o : Oracle) (ts : List Tok) (e : Expr) (r : List Tok) : Prop := ∃ f0, ∀ f, f0 ≤ f → pContains o f ts = .ok e r
def PContTail (o : Oracle) (ts : List Tok) (e : Expr) (r : List Tok) : Prop := ∃ f0, ∀ f, f0 ≤ f → pContainsTail o f ts = .ok e r
def PUn (o : Oracle) (ts : List Tok) (e : Expr) (r : List Tok) : Prop := ∃ f0, ∀ f, f0 ≤ f → pUnary o f ts = .ok e r
def PIdx (o : Oracle) (ts : List Tok) (e : Expr) (r : List Tok) : Prop := ∃ f0, ∀ f, f0 ≤ f → pIndex o f ts = .ok e r
def LIdx (o : Oracle) (acc : Expr) (ts : List Tok) (e : Expr) (r : List Tok) : Prop :=
  ∃ f0, ∀ f, f0 ≤ f → pIndexLoop o f acc ts = .ok e r
def PTerm (o : Oracle) (ts : List Tok) (e : Expr) (r : List Tok) : Prop := ∃ f0, ∀ f, f0 ≤ f → pTerm o f ts = .ok e r
def PVec (o : Oracle) (ts : List Tok) (es : List Expr) (r : List Tok) : Prop := ∃ f0, ∀ f, f0 ≤ f → pVecItems o f ts = .ok es r
def PMap (o : Oracle) (ts : List Tok) (kvs : List (Str × Expr)) (r : List Tok) : Prop :=
  ∃ f0, ∀ f, f0 ≤ f → pMapItems o f ts = .ok kvs r

/-- split a fuel that is at least `n + 1` -/
theorem fuel_succ {n f : Nat} (h : n + 1 ≤ f) : ∃ g, f = g + 1 ∧ n ≤ g := ⟨f - 1, by omega, by omega⟩

/-! ### introduction rules -/

theorem PIf_of_bin {o : Oracle} {ts : List Tok} {e : Expr} {r : List Tok}
    (hno : ∀ r', ts ≠ kwIf :: r') (h : PBin o 1 ts e r) : PIf o ts e r := by
  obtain ⟨f0, h⟩ := h
  refine ⟨f0 + 1, fun f hf => ?_⟩
  obtain ⟨g, rfl, hg⟩ := fuel_succ hf
  simp only [pIf]
  split
  · rename_i k r'
    split
    · rename_i hk; subst hk; exact absurd rfl (hno r')
    · exact h g hg
  · exact h g hg

theorem PIf_ite {o : Oracle} {t1 t2 t3 r : List Tok} {c t e : Expr}
    (hc : PIf o t1 c (kwThen :: t2)) (ht : PIf o t2 t (kwElse :: t3)) (he : PIf o t3 e r) :
    PIf o (kwIf :: t1) (.ite c t e) r := by
  obtain ⟨f1, hc⟩ := hc; obtain ⟨f2, ht⟩ := ht; obtain ⟨f3, he⟩ := he
  refine ⟨f1 + f2 + f3 + 1, fun f hf => ?_⟩
  obtain ⟨g, rfl, hg⟩ := fuel_succ hf
  simp [pIf, kwIf, kwThen, kwElse, hc g (by omega), ht g (by omega), he g (by omega)] at *

theorem PBin_step {o : Oracle} {k : Nat} {ts r1 r : List Tok} {l e : Expr} (hk : k < 6)
    (h1 : PBin o (k + 1) ts l r1) (h2 : LBin o k l r1 e r) : PBin o k ts e r := by
  obtain ⟨f1, h1⟩ := h1; obtain ⟨f2, h2⟩ := h2
  refine ⟨f1 + f2 + 1, fun f hf => ?_⟩
  obtain ⟨g, rfl, hg⟩ := fuel_succ hf
  have : ¬ k ≥ 6 := by omega
  simp [pBin, this, h1 g (by omega), h2 g (by omega)]

theorem PBin_six {o : Oracle} {k : Nat} {ts r : List Tok} {e : Expr} (hk : 6 ≤ k) (h : PCont o ts e r) : PBin o k ts e r := by
  obtain ⟨f1, h⟩ := h
  refine ⟨f1 + 1, fun f hf => ?_⟩
  obtain ⟨g, rfl, hg⟩ := fuel_succ hf
  simp [pBin, hk, h g hg]

theorem LBin_stop {o : Oracle} {k : Nat} {acc : Expr} {ts : List Tok}
    (h : ∀ t r, ts = t :: r → binOpAt k t = none) : LBin o k acc ts acc ts := by
  refine ⟨1, fun f hf => ?_⟩
  obtain ⟨g, rfl, _⟩ := fuel_succ hf
  simp only [pBinLoop]
  split
  · rename_i t r; rw [h t r rfl]
  · rfl

theorem LBin_step {o : Oracle} {k : Nat} {acc x e : Expr} {t : Tok} {r r1 r' : List Tok} {mk : Expr → Expr → Expr}
    (hop : binOpAt k t = some mk) (h1 : PBin o (k + 1) r x r1) (h2 : LBin o k (mk acc x) r1 e r') :
    LBin o k acc (t :: r) e r' := by
  obtain ⟨f1, h1⟩ := h1; obtain ⟨f2, h2⟩ := h2
  refine ⟨f1 + f2 + 1, fun f hf => ?_⟩
  obtain ⟨g, rfl, hg⟩ := fuel_succ hf
  simp [pBinLoop, hop, h1 g (by omega), h2 g (by omega)]


/-- `- …` / `! …` start a unary expression -/
theorem PCont_unary {o : Oracle} {t : Tok} {r r' : List Tok} {e : Expr} (ht : t = minus ∨ t = bang)
    (h : PUn o (t :: r) e r') : PCont o (t :: r) e r' := by
  obtain ⟨f1, h⟩ := h
  refine ⟨f1 + 1, fun f hf => ?_⟩
  obtain ⟨g, rfl, hg⟩ := fuel_succ hf
  rcases ht with rfl | rfl <;> simp [pContains, minus, bang, h g hg] <;> exact h g hg

theorem PCont_tail {o : Oracle} {ts r' : List Tok} {e : Expr} (hno : ∀ r, ts ≠ minus :: r ∧ ts ≠ bang :: r)
    (h : PContTail o ts e r') : PCont o ts e r' := by
  obtain ⟨f1, h⟩ := h
  refine ⟨f1 + 1, fun f hf => ?_⟩
  obtain ⟨g, rfl, hg⟩ := fuel_succ hf
  simp only [pContains]
  split
  · rename_i s r
    split
    · rename_i hs
      simp only [Bool.or_eq_true, decide_eq_true_eq] at hs
      rcases hs with hs | hs
      · subst hs; exact absurd rfl (hno r).1
      · subst hs; exact absurd rfl (hno r).2
    · exact h g hg
  · exact h g hg

theorem PContTail_plain {o : Oracle} {ts r : List Tok} {l : Expr} (h : PIdx o ts l r)
    (hno : ∀ r', r ≠ kwContains :: r' ∧ r ≠ kwIn :: r') : PContTail o ts l r := by
  obtain ⟨f1, h⟩ := h
  refine ⟨f1 + 1, fun f hf => ?_⟩
  obtain ⟨g, rfl, hg⟩ := fuel_succ hf
  simp only [pContainsTail, h g hg]
  split
  · rename_i k r1
    split
    · rename_i hk; subst hk; exact absurd rfl (hno r1).1
    · split
      · rename_i hk; subst hk; exact absurd rfl (hno r1).2
      · rfl
  · rfl

theorem PContTail_contains {o : Oracle} {ts r1 r2 : List Tok} {l x : Expr} (h1 : PIdx o ts l (kwContains :: r1))
    (h2 : PIdx o r1 x r2) : PContTail o ts (.bin .contains l x) r2 := by
  obtain ⟨f1, h1⟩ := h1; obtain ⟨f2, h2⟩ := h2
  refine ⟨f1 + f2 + 1, fun f hf => ?_⟩
  obtain ⟨g, rfl, hg⟩ := fuel_succ hf
  simp [pContainsTail, kwContains, h1 g (by omega), h2 g (by omega)] at *

theorem PContTail_in {o : Oracle} {ts r1 r2 : List Tok} {l x : Expr} (h1 : PIdx o ts l (kwIn :: r1))
    (h2 : PIdx o r1 x r2) : PContTail o ts (.bin .contains x l) r2 := by
  obtain ⟨f1, h1⟩ := h1; obtain ⟨f2, h2⟩ := h2
  refine ⟨f1 + f2 + 1, fun f hf => ?_⟩
  obtain ⟨g, rfl, hg⟩ := fuel_succ hf
  simp [pContainsTail, kwIn, h1 g (by omega), h2 g (by omega)] at *

theorem PUn_neg {o : Oracle} {r r' : List Tok} {e : Expr} (h : PUn o r e r') : PUn o (minus :: r) (.un .neg e) r' := by
  obtain ⟨f1, h⟩ := h
  refine ⟨f1 + 1, fun f hf => ?_⟩
  obtain ⟨g, rfl, hg⟩ := fuel_succ hf
  simp [pUnary, minus, h g hg]

theorem PUn_not {o : Oracle} {r r' : List Tok} {e : Expr} (h : PUn o r e r') : PUn o (bang :: r) (.un .not e) r' := by
  obtain ⟨f1, h⟩ := h
  refine ⟨f1 + 1, fun f hf => ?_⟩
  obtain ⟨g, rfl, hg⟩ := fuel_succ hf
  simp [pUnary, bang, h g hg]

theorem PUn_index {o : Oracle} {ts r' : List Tok} {e : Expr} (hno : ∀ r, ts ≠ minus :: r ∧ ts ≠ bang :: r)
    (h : PIdx o ts e r') : PUn o ts e r' := by
  obtain ⟨f1, h⟩ := h
  refine ⟨f1 + 1, fun f hf => ?_⟩
  obtain ⟨g, rfl, hg⟩ := fuel_succ hf
  simp only [pUnary]
  split
  · rename_i s r
    split
    · rename_i hs; subst hs; exact absurd rfl (hno r).1
    · split
      · rename_i hs; subst hs; exact absurd rfl (hno r).2
      · exact h g hg
  · exact h g hg

theorem PIdx_intro {o : Oracle} {ts r1 r : List Tok} {l e : Expr} (h1 : PTerm o ts l r1) (h2 : LIdx o l r1 e r) :
    PIdx o ts e r := by
  obtain ⟨f1, h1⟩ := h1; obtain ⟨f2, h2⟩ := h2
  refine ⟨f1 + f2 + 1, fun f hf => ?_⟩
  obtain ⟨g, rfl, hg⟩ := fuel_succ hf
  simp [pIndex, h1 g (by omega), h2 g (by omega)]

theorem LIdx_stop {o : Oracle} {acc : Expr} {ts : List Tok} (h : ∀ r, ts ≠ dot :: r) : LIdx o acc ts acc ts := by
  refine ⟨1, fun f hf => ?_⟩
  obtain ⟨g, rfl, _⟩ := fuel_succ hf
  simp only [pIndexLoop]
  split
  · rename_i s r
    split
    · rename_i hs; subst hs; exact absurd rfl (h r)
    · rfl
  · rfl

theorem LIdx_key {o : Oracle} {acc e : Expr} {k : Str} {r r' : List Tok} (h : LIdx o (.index acc (.key k)) r e r') :
    LIdx o acc (dot :: .ident k :: r) e r' := by
  obtain ⟨f1, h⟩ := h
  refine ⟨f1 + 1, fun f hf => ?_⟩
  obtain ⟨g, rfl, hg⟩ := fuel_succ hf
  simp [pIndexLoop, dot, h g hg]

theorem LIdx_pos {o : Oracle} {acc e : Expr} {ds : Str} {r r' : List Tok} (hn : Str.ofDigits ds ≤ u64Max)
    (h : LIdx o (.index acc (.pos (Str.ofDigits ds))) r e r') : LIdx o acc (dot :: .index ds :: r) e r' := by
  obtain ⟨f1, h⟩ := h
  refine ⟨f1 + 1, fun f hf => ?_⟩
  obtain ⟨g, rfl, hg⟩ := fuel_succ hf
  simp [pIndexLoop, dot, hn, h g hg]


def NoLP (r : List Tok) : Prop := ∀ r', r ≠ lp :: r'

theorem PTerm_lit {o : Oracle} {t : Tok} {v : Value} {r x : List Tok} (ht : IsLitTok t) (h : Lit.ofTok o t = .ok v x) :
    PTerm o (t :: r) (.lit v) r := by
  refine ⟨1, fun f hf => ?_⟩
  obtain ⟨g, rfl, _⟩ := fuel_succ hf
  cases t <;> simp [IsLitTok] at ht <;> simp [pTerm, h]

theorem PTerm_true {o : Oracle} {r : List Tok} : PTerm o (.kw ['t', 'r', 'u', 'e'] :: r) (.lit (.bool true)) r := by
  refine ⟨1, fun f hf => ?_⟩
  obtain ⟨g, rfl, _⟩ := fuel_succ hf
  simp only [pTerm]
  split <;> simp [funcOfKw]

theorem PTerm_false {o : Oracle} {r : List Tok} : PTerm o (.kw ['f', 'a', 'l', 's', 'e'] :: r) (.lit (.bool false)) r := by
  refine ⟨1, fun f hf => ?_⟩
  obtain ⟨g, rfl, _⟩ := fuel_succ hf
  simp only [pTerm]
  split <;> simp [funcOfKw]

theorem PTerm_none {o : Oracle} {r : List Tok} (h : NoLP r) : PTerm o (.kw ['n', 'o', 'n', 'e'] :: r) (.lit .none) r := by
  refine ⟨1, fun f hf => ?_⟩
  obtain ⟨g, rfl, _⟩ := fuel_succ hf
  simp only [pTerm]
  split
  · rename_i r1; exact absurd rfl (h r1)
  · simp

theorem PTerm_ref {o : Oracle} {x : Str} {r : List Tok} (h : NoLP r) : PTerm o (.ident x :: r) (.ref x) r := by
  refine ⟨1, fun f hf => ?_⟩
  obtain ⟨g, rfl, _⟩ := fuel_succ hf
  simp only [pTerm]
  split
  · rename_i r1; exact absurd rfl (h r1)
  · rfl

theorem PTerm_call {o : Oracle} {x : Str} {T r : List Tok} {a : Expr} (h : PIf o T a (rp :: r)) :
    PTerm o (.ident x :: lp :: T) (.call x a) r := by
  obtain ⟨f1, h⟩ := h
  refine ⟨f1 + 1, fun f hf => ?_⟩
  obtain ⟨g, rfl, hg⟩ := fuel_succ hf
  simp [pTerm, lp, rp, h g hg] at *

theorem PTerm_func {o : Oracle} {k : Str} {op : UnOp} {T r : List Tok} {e : Expr} (hk : funcOfKw k = some op)
    (h : PIf o T e (rp :: r)) : PTerm o (.kw k :: lp :: T) (.un op e) r := by
  obtain ⟨f1, h⟩ := h
  refine ⟨f1 + 1, fun f hf => ?_⟩
  obtain ⟨g, rfl, hg⟩ := fuel_succ hf
  simp [pTerm, lp, rp, hk, h g hg] at *

theorem PTerm_sym {o : Oracle} {x : Str} {r : List Tok} : PTerm o (colon :: .ident x :: r) (.sym x) r := by
  refine ⟨1, fun f hf => ?_⟩
  obtain ⟨g, rfl, _⟩ := fuel_succ hf
  simp [pTerm, colon]

theorem PTerm_paren {o : Oracle} {T r : List Tok} {e : Expr} (h : PIf o T e (rp :: r)) : PTerm o (lp :: T) e r := by
  obtain ⟨f1, h⟩ := h
  refine ⟨f1 + 1, fun f hf => ?_⟩
  obtain ⟨g, rfl, hg⟩ := fuel_succ hf
  simp [pTerm, lp, rp, h g hg] at *

theorem PTerm_vec {o : Oracle} {T r : List Tok} {xs : List Expr} (h : PVec o T xs r) : PTerm o (.p ['['] :: T) (.vec xs) r := by
  obtain ⟨f1, h⟩ := h
  refine ⟨f1 + 1, fun f hf => ?_⟩
  obtain ⟨g, rfl, hg⟩ := fuel_succ hf
  simp [pTerm, h g hg]

theorem PTerm_map {o : Oracle} {T r : List Tok} {kvs : List (Str × Expr)} (h : PMap o T kvs r) :
    PTerm o (.p ['{'] :: T) (.map (collectMap kvs)) r := by
  obtain ⟨f1, h⟩ := h
  refine ⟨f1 + 1, fun f hf => ?_⟩
  obtain ⟨g, rfl, hg⟩ := fuel_succ hf
  simp [pTerm, collectMap, h g hg]

theorem PVec_nil {o : Oracle} {r : List Tok} : PVec o (.p [']'] :: r) [] r := by
  refine ⟨1, fun f hf => ?_⟩
  obtain ⟨g, rfl, _⟩ := fuel_succ hf
  simp [pVecItems]

theorem PVec_last {o : Oracle} {T r : List Tok} {e : Expr} (hne : ∀ r', T ≠ .p [']'] :: r') (h : PIf o T e (.p [']'] :: r)) :
    PVec o T [e] r := by
  obtain ⟨f1, h⟩ := h
  refine ⟨f1 + 1, fun f hf => ?_⟩
  obtain ⟨g, rfl, hg⟩ := fuel_succ hf
  rw [pVecItems]
  · simp [h g hg]
  · intro r' e'; exact hne r' e'

theorem PVec_cons {o : Oracle} {T r1 r : List Tok} {e : Expr} {es : List Expr} (hne : ∀ r', T ≠ .p [']'] :: r')
    (h : PIf o T e (comma :: r1)) (h2 : PVec o r1 es r) : PVec o T (e :: es) r := by
  obtain ⟨f1, h⟩ := h; obtain ⟨f2, h2⟩ := h2
  refine ⟨f1 + f2 + 1, fun f hf => ?_⟩
  obtain ⟨g, rfl, hg⟩ := fuel_succ hf
  rw [pVecItems]
  · simp [comma, h g (by omega), h2 g (by omega)] at *
  · intro r' e'; exact hne r' e'

theorem PMap_nil {o : Oracle} {r : List Tok} : PMap o (.p ['}'] :: r) [] r := by
  refine ⟨1, fun f hf => ?_⟩
  obtain ⟨g, rfl, _⟩ := fuel_succ hf
  simp [pMapItems]

theorem PMap_last {o : Oracle} {k : Str} {T r : List Tok} {e : Expr} (h : PIf o T e (.p ['}'] :: r)) :
    PMap o (.ident k :: colon :: T) [(k, e)] r := by
  obtain ⟨f1, h⟩ := h
  refine ⟨f1 + 1, fun f hf => ?_⟩
  obtain ⟨g, rfl, hg⟩ := fuel_succ hf
  simp [pMapItems, colon, h g hg] at *

theorem PMap_cons {o : Oracle} {k : Str} {T r1 r : List Tok} {e : Expr} {es : List (Str × Expr)}
    (h : PIf o T e (comma :: r1)) (h2 : PMap o r1 es r) : PMap o (.ident k :: colon :: T) ((k, e) :: es) r := by
  obtain ⟨f1, h⟩ := h; obtain ⟨f2, h2⟩ := h2
  refine ⟨f1 + f2 + 1, fun f hf => ?_⟩
  obtain ⟨g, rfl, hg⟩ := fuel_succ hf
  simp [pMapItems, colon, comma, h g (by omega), h2 g (by omega)] at *

end Reval.G
