/-
  Lemmas/Strings.lean — what the string primitives compute, stated without reference to how:
  `isInfix` is the substring relation, `trim` returns the middle piece between two runs of white space,
  `parseI128` reads exactly the sign-and-digits numerals of the i128 range.
-/
import RevalModel.Prim.DecTime

namespace Reval.Str

theorem isPrefix_iff (p s : Str) : isPrefix p s = true ↔ ∃ post, s = p ++ post := by
  induction p generalizing s with
  | nil => simp [isPrefix]
  | cons a as ih =>
    cases s with
    | nil => simp [isPrefix]
    | cons b bs =>
      simp only [isPrefix, Bool.and_eq_true, beq_iff_eq, ih, List.cons_append, List.cons.injEq]
      constructor
      · rintro ⟨rfl, post, rfl⟩; exact ⟨post, rfl, rfl⟩
      · rintro ⟨post, rfl, rfl⟩; exact ⟨rfl, post, rfl⟩

/-- `str::contains(&str)`: the needle occurs as a contiguous piece -/
theorem isInfix_iff (t s : Str) : isInfix t s = true ↔ ∃ pre post, s = pre ++ t ++ post := by
  induction s with
  | nil =>
    simp only [isInfix, List.isEmpty_iff]
    constructor
    · rintro rfl; exact ⟨[], [], rfl⟩
    · rintro ⟨pre, post, h⟩
      have := congrArg List.length h
      simp at this
      exact List.eq_nil_of_length_eq_zero (by omega)
  | cons c cs ih =>
    simp only [isInfix, Bool.or_eq_true, isPrefix_iff, ih]
    constructor
    · rintro (⟨post, h⟩ | ⟨pre, post, h⟩)
      · exact ⟨[], post, by simpa using h⟩
      · exact ⟨c :: pre, post, by simp [h]⟩
    · rintro ⟨pre, post, h⟩
      cases pre with
      | nil => left; exact ⟨post, by simpa using h⟩
      | cons p ps =>
        right
        simp only [List.cons_append, List.cons.injEq] at h
        exact ⟨ps, post, h.2⟩

theorem dropWhile_head_not (p : Char → Bool) (s : Str) (c : Char) (r : Str) (h : s.dropWhile p = c :: r) : p c = false := by
  induction s with
  | nil => simp at h
  | cons a as ih =>
    simp only [List.dropWhile_cons] at h
    split at h
    · exact ih h
    · rename_i hp
      simp only [List.cons.injEq] at h
      rw [← h.1]; simpa using hp

theorem trimStart_spec (s : Str) :
    s = s.takeWhile isWhite ++ trimStart s ∧ (s.takeWhile isWhite).all isWhite = true ∧
    (∀ c r, trimStart s = c :: r → isWhite c = false) := by
  exact ⟨(List.takeWhile_append_dropWhile).symm, List.all_takeWhile, fun c r h => dropWhile_head_not _ s c r h⟩

theorem trimEnd_spec (s : Str) :
    s = trimEnd s ++ (s.reverse.takeWhile isWhite).reverse ∧ ((s.reverse.takeWhile isWhite).reverse).all isWhite = true ∧
    (∀ c, (trimEnd s).getLast? = some c → isWhite c = false) := by
  refine ⟨?_, ?_, ?_⟩
  · have h := (List.takeWhile_append_dropWhile (p := isWhite) (l := s.reverse))
    have := congrArg List.reverse h
    simp only [List.reverse_append, List.reverse_reverse] at this
    exact this.symm
  · rw [List.all_reverse]; exact List.all_takeWhile
  · intro c h
    unfold trimEnd at h
    rw [List.getLast?_reverse] at h
    cases hd : s.reverse.dropWhile isWhite with
    | nil => rw [hd] at h; simp at h
    | cons a r =>
      rw [hd] at h; simp at h; subst h
      exact dropWhile_head_not _ _ _ _ hd

/-- `str::trim`: what is cut off on either side is white space only, and what remains neither starts nor ends with
    a white-space character (so it is the middle piece, whole) -/
theorem trim_spec (s : Str) : ∃ l r, s = l ++ trim s ++ r ∧ l.all isWhite = true ∧ r.all isWhite = true ∧
    (∀ c u, trim s = c :: u → isWhite c = false) ∧ (∀ c, (trim s).getLast? = some c → isWhite c = false) := by
  obtain ⟨h1, h2, h3⟩ := trimStart_spec s
  obtain ⟨e1, e2, e3⟩ := trimEnd_spec (trimStart s)
  refine ⟨s.takeWhile isWhite, ((trimStart s).reverse.takeWhile isWhite).reverse, ?_, h2, e2, ?_, e3⟩
  · unfold trim; rw [List.append_assoc, ← e1]; exact h1
  · intro c u hc
    unfold trim at hc
    rw [hc] at e1
    exact h3 c _ e1

/-- trimming twice changes nothing -/
theorem trim_idempotent (s : Str) : trim (trim s) = trim s := by
  obtain ⟨l, r, _, _, _, hh, hl⟩ := trim_spec s
  generalize trim s = t at hh hl
  have hs : trimStart t = t := by
    unfold trimStart
    cases t with
    | nil => rfl
    | cons c u => simp [hh c u rfl]
  have he : trimEnd t = t := by
    unfold trimEnd
    cases hr : t.reverse with
    | nil => simp at hr; subst hr; rfl
    | cons c u =>
      have : t.getLast? = some c := by rw [← List.head?_reverse, hr]; rfl
      have := hl c this
      simp only [List.dropWhile_cons, this, Bool.false_eq_true, ↓reduceIte]
      rw [← hr]; simp
  unfold trim; rw [hs, he]


end Reval.Str

namespace Reval
open Str

def parseCore (neg : Bool) (ds : Str) : Option Int :=
  if ds.isEmpty || !ds.all isDigit then none
  else I128.checked (if neg then -(ofDigits ds : Int) else (ofDigits ds : Int))

theorem parseI128_eq (s : Str) : Str.parseI128 s =
    (match s with
     | '-' :: r => parseCore true r
     | '+' :: r => parseCore false r
     | r => parseCore false r) := by
  split
  · rfl
  · rfl
  · rename_i h1 h2
    unfold Str.parseI128 parseCore
    split
    rename_i neg ds heq
    split at heq <;> cases heq
    · exact (h1 _ rfl).elim
    · exact (h2 _ rfl).elim
    · rfl

theorem parseCore_iff (neg : Bool) (ds : Str) (n : Int) : parseCore neg ds = some n ↔
    (ds ≠ [] ∧ ds.all isDigit = true ∧ n = (if neg then -(ofDigits ds : Int) else (ofDigits ds : Int)) ∧ I128.inRange n = true) := by
  unfold parseCore I128.checked
  cases ds with
  | nil => simp
  | cons c r =>
    by_cases hd : (c :: r).all isDigit = true
    · simp only [List.isEmpty_cons, hd, Bool.not_true, Bool.or_self, Bool.false_eq_true, ↓reduceIte, ne_eq, reduceCtorEq,
        not_false_eq_true, true_and]
      generalize (if neg = true then -(ofDigits (c :: r) : Int) else (ofDigits (c :: r) : Int)) = x
      by_cases hin : I128.inRange x = true
      · simp only [hin, ↓reduceIte, Option.some.injEq]
        constructor
        · rintro rfl; exact ⟨rfl, hin⟩
        · rintro ⟨rfl, _⟩; rfl
      · simp only [hin, Bool.false_eq_true, ↓reduceIte, reduceCtorEq, false_iff, not_and]
        rintro rfl; exact hin
    · simp [hd]

/-- `i128::from_str`: an optional sign, at least one ASCII digit and nothing else, denoting a number within i128 -/
theorem parseI128_spec (s : Str) (n : Int) : Str.parseI128 s = some n ↔
    ∃ (neg : Bool) (ds : Str), (s = ds ∧ neg = false ∨ s = '+' :: ds ∧ neg = false ∨ s = '-' :: ds ∧ neg = true) ∧
      ds ≠ [] ∧ ds.all isDigit = true ∧ n = (if neg then -(ofDigits ds : Int) else (ofDigits ds : Int)) ∧ I128.inRange n = true := by
  rw [parseI128_eq]
  constructor
  · intro h
    split at h
    · rename_i r; exact ⟨true, r, Or.inr (Or.inr ⟨rfl, rfl⟩), (parseCore_iff _ _ _).1 h⟩
    · rename_i r; exact ⟨false, r, Or.inr (Or.inl ⟨rfl, rfl⟩), (parseCore_iff _ _ _).1 h⟩
    · exact ⟨false, s, Or.inl ⟨rfl, rfl⟩, (parseCore_iff _ _ _).1 h⟩
  · rintro ⟨neg, ds, hs, hrest⟩
    have hc := (parseCore_iff neg ds n).2 hrest
    rcases hs with ⟨rfl, rfl⟩ | ⟨rfl, rfl⟩ | ⟨rfl, rfl⟩
    · cases s with
      | nil => exact absurd rfl hrest.1
      | cons c r =>
        have hd : isDigit c = true := by have := hrest.2.1; simp [List.all_cons] at this; exact this.1
        have h1 : c ≠ '-' := by intro e; subst e; revert hd; decide
        have h2 : c ≠ '+' := by intro e; subst e; revert hd; decide
        split
        · rename_i heq; cases heq; exact absurd rfl h1
        · rename_i heq; cases heq; exact absurd rfl h2
        · exact hc
    · exact hc
    · exact hc


end Reval
