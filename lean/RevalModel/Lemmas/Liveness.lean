/-
  Lemmas/Liveness.lean — how many polls an evaluation needs (C12): a task's remaining cost is a number that every
  poll of that task lowers by exactly one and that no poll of another task changes.
-/
import RevalModel.Impl.Async

namespace Reval

/-- how often a freshly entered resumption will report `Pending` before its first call answers -/
def entryCost {α : Type} (susp : Str → Value → Nat → Nat) : Resumption α → Nat
  | .done _ => 0
  | .await f arg idx _ => susp f arg idx

/-- polls needed to finish a resumption whose current call is ready to answer -/
def cost {α : Type} (env : Env) (susp : Str → Value → Nat → Nat) : Resumption α → Nat
  | .done _ => 0
  | .await f arg idx k =>
    1 + entryCost susp (k (answer env f idx arg)) + cost env susp (k (answer env f idx arg))

/-- polls a task still needs: the suspensions left on the current call, then the rest -/
def need {α : Type} (env : Env) (susp : Str → Value → Nat → Nat) (t : Task α) : Nat :=
  match t.res with
  | .done _ => 0
  | .await f arg idx k => t.pending + cost env susp (.await f arg idx k)

theorem need_pollTask {α : Type} (env : Env) (susp : Str → Value → Nat → Nat) (t : Task α) :
    need env susp (pollTask env susp t) = need env susp t - 1 := by
  obtain ⟨res, p⟩ := t
  cases res with
  | done a => simp [pollTask, need]
  | await f arg idx k =>
    cases p with
    | succ n => simp only [pollTask, need]; omega
    | zero =>
      simp only [pollTask]
      cases hk : k (answer env f idx arg) with
      | done a => simp [need, cost, entryCost, hk]
      | await f' a' i' k' => simp only [need, cost, entryCost, hk]; omega

theorem need_zero_done {α : Type} (env : Env) (susp : Str → Value → Nat → Nat) (t : Task α)
    (h : need env susp t = 0) : ∃ a, t.res = .done a := by
  obtain ⟨res, p⟩ := t
  cases res with
  | done a => exact ⟨a, rfl⟩
  | await f arg idx k => simp only [need, cost] at h; omega

theorem pollAt_self {α : Type} (env : Env) (susp : Str → Value → Nat → Nat) :
    ∀ (ts : List (Task α)) (i : Nat) (t : Task α), ts[i]? = some t →
      (pollAt env susp i ts)[i]? = some (pollTask env susp t) := by
  intro ts
  induction ts with
  | nil => intro i t h; simp at h
  | cons t0 ts ih =>
    intro i t h
    cases i with
    | zero => simp only [List.getElem?_cons_zero, Option.some.injEq] at h; subst h; simp [pollAt]
    | succ j => simpa [pollAt] using ih j t (by simpa using h)

theorem pollAt_other {α : Type} (env : Env) (susp : Str → Value → Nat → Nat) :
    ∀ (ts : List (Task α)) (i j : Nat), i ≠ j → (pollAt env susp i ts)[j]? = ts[j]? := by
  intro ts
  induction ts with
  | nil => intro i j _; simp [pollAt]
  | cons t ts ih =>
    intro i j hij
    cases i with
    | zero =>
      cases j with
      | zero => exact absurd rfl hij
      | succ j' => simp [pollAt]
    | succ i' =>
      cases j with
      | zero => simp [pollAt]
      | succ j' => simpa [pollAt] using ih i' j' (by omega)

/-- after any schedule, task `i` needs exactly as many polls fewer as the schedule polled it -/
theorem need_runSched {α : Type} (env : Env) (susp : Str → Value → Nat → Nat) (sched : List Nat) :
    ∀ (ts : List (Task α)) (i : Nat) (t : Task α), ts[i]? = some t →
      ∃ t', (runSched env susp sched ts)[i]? = some t' ∧ need env susp t' = need env susp t - sched.count i := by
  induction sched with
  | nil => intro ts i t h; exact ⟨t, h, by simp⟩
  | cons s rest ih =>
    intro ts i t h
    simp only [runSched]
    by_cases hs : s = i
    · subst hs
      obtain ⟨t', h1, h2⟩ := ih (pollAt env susp s ts) s _ (pollAt_self env susp ts s t h)
      refine ⟨t', h1, ?_⟩
      rw [h2, need_pollTask, List.count_cons_self]; omega
    · obtain ⟨t', h1, h2⟩ := ih (pollAt env susp s ts) i t (by rw [pollAt_other env susp ts s i hs]; exact h)
      refine ⟨t', h1, ?_⟩
      rw [h2, List.count_cons_of_ne (by exact hs)]

end Reval
