/-
  Lemmas/LexerBasic.lean — the tokens the lexer produces have the shape that makes the grammar actions'
  prefix slices safe (`TokWF`), hence `Expr::parse` / `Rule::parse` of any text never panic.
-/
import RevalModel.Lemmas.ParserBasic

namespace Reval

theorem scanStr_pos (s : Str) : ∀ n, Lex.scanStr s = some n → 1 ≤ n ∧ 1 ≤ s.length := by
  fun_induction Lex.scanStr s <;> intro n h <;> simp_all <;> omega

theorem wordTok_wf (c : Char) (rest : Str) : TokWF (Lex.wordTok c rest) := by
  unfold Lex.wordTok; split <;> simp [TokWF]

theorem stepWord_wf (c : Char) (rest : Str) : TokWF (Lex.stepWord c rest).1 := by
  unfold Lex.stepWord
  split
  · split
    · simp only [Lex.mkNum]; split <;> (try split) <;> simp [TokWF]
    · exact wordTok_wf c rest
  · exact wordTok_wf c rest

theorem matchRadix_wf (rest : Str) (n : Nat) (mk : Str → Tok) (h : Lex.matchRadix rest = some (n, mk)) :
    2 ≤ n ∧ 1 ≤ rest.length ∧ (mk = Tok.hex ∨ mk = Tok.oct ∨ mk = Tok.bin) := by
  unfold Lex.matchRadix at h
  split at h <;> (try (simp at h; done)) <;>
    (split at h <;> (try (simp at h; done)); simp at h; obtain ⟨rfl, rfl⟩ := h; simp; omega)

theorem stepDigit_wf (c : Char) (rest : Str) : TokWF (Lex.stepDigit c rest).1 := by
  unfold Lex.stepDigit
  split
  · rename_i n mk heq
    split
    · have hr : Lex.matchRadix rest = some (n, mk) := by
        split at heq
        · exact heq
        · cases heq
      obtain ⟨h2, h1, hm⟩ := matchRadix_wf rest n mk hr
      have hl : 2 ≤ (c :: rest.take n).length := by simp [List.length_take]; omega
      rcases hm with rfl | rfl | rfl <;> simpa [TokWF] using hl
    · simp [TokWF]
  · simp [TokWF]

theorem stepString_wf (rest : Str) (t : Tok) (r : Str) (h : Lex.stepString rest = some (t, r)) : TokWF t := by
  unfold Lex.stepString at h
  split at h
  · rename_i n hn
    obtain ⟨h1, h2⟩ := scanStr_pos rest n hn
    simp at h; obtain ⟨rfl, rfl⟩ := h
    simp [TokWF, List.length_take]; omega
  · cases h

theorem stepPunct_wf (c : Char) (rest : Str) (t : Tok) (r : Str) (h : Lex.stepPunct c rest = some (t, r)) : TokWF t := by
  unfold Lex.stepPunct at h
  split at h <;> (repeat' split at h) <;> (try (cases h; done)) <;> (simp at h; obtain ⟨rfl, _⟩ := h; simp [TokWF])

theorem step_tokWF (s : Str) (t : Tok) (rest : Str) (h : Lex.step s = some (some t, rest)) : TokWF t := by
  unfold Lex.step at h
  repeat' split at h
  all_goals (try (simp at h; done))
  all_goals (simp only [Option.some.injEq, Prod.mk.injEq] at h; obtain ⟨rfl, _⟩ := h)
  all_goals first
    | exact stepWord_wf _ _
    | exact stepDigit_wf _ _
    | exact stepString_wf _ _ _ ‹_›
    | exact stepPunct_wf _ _ _ _ ‹_›

theorem lexAux_nil (f : Nat) : Lex.lexAux f [] = some [] := by cases f <;> simp [Lex.lexAux]
theorem lexAux_zero (c : Char) (cs : Str) : Lex.lexAux 0 (c :: cs) = none := by simp [Lex.lexAux]
theorem lexAux_succ_none (f : Nat) (c : Char) (cs : Str) (h : Lex.step (c :: cs) = none) :
    Lex.lexAux (f + 1) (c :: cs) = none := by simp only [Lex.lexAux, h]
theorem lexAux_succ_skip (f : Nat) (c : Char) (cs rest : Str) (h : Lex.step (c :: cs) = some (none, rest)) :
    Lex.lexAux (f + 1) (c :: cs) = Lex.lexAux f rest := by simp only [Lex.lexAux, h]
theorem lexAux_succ_tok (f : Nat) (c : Char) (cs rest : Str) (t : Tok) (h : Lex.step (c :: cs) = some (some t, rest)) :
    Lex.lexAux (f + 1) (c :: cs) = (Lex.lexAux f rest).map (t :: ·) := by simp only [Lex.lexAux, h]

theorem lexAux_wf : ∀ (f : Nat) (s : Str) (ts : List Tok), Lex.lexAux f s = some ts → AllWF ts := by
  intro f
  induction f with
  | zero =>
    intro s ts h
    cases s with
    | nil => rw [lexAux_nil] at h; cases h; intro t ht; cases ht
    | cons c cs => rw [lexAux_zero] at h; cases h
  | succ f ih =>
    intro s ts h
    cases s with
    | nil => rw [lexAux_nil] at h; cases h; intro t ht; cases ht
    | cons c cs =>
      cases hstep : Lex.step (c :: cs) with
      | none => rw [lexAux_succ_none f c cs hstep] at h; cases h
      | some pr =>
        obtain ⟨ot, rest⟩ := pr
        cases ot with
        | none => rw [lexAux_succ_skip f c cs rest hstep] at h; exact ih _ _ h
        | some t =>
          rw [lexAux_succ_tok f c cs rest t hstep] at h
          simp only [Option.map_eq_some_iff] at h
          obtain ⟨ts', hts', rfl⟩ := h
          intro x hx
          rcases List.mem_cons.1 hx with rfl | hx
          · exact step_tokWF _ _ _ hstep
          · exact ih _ _ hts' x hx

/-- every token of every text has the shape the grammar actions rely on -/
theorem lex_wf (s : Str) (ts : List Tok) (h : lex s = some ts) : AllWF ts := lexAux_wf _ s ts h

/-- `Expr::parse` never panics, for every text -/
theorem parseExprText_noPanic (o : Oracle) (s : Str) : (parseExprText o s).isPanic = false := by
  unfold parseExprText
  split
  · rfl
  · rename_i ts h; exact parseToks_noPanic o ts (lex_wf s ts h)

end Reval

namespace Reval

theorem pRule_NP (o : Oracle) : ∀ (f : Nat) (ts : List Tok) (acc : List (Str × Expr)), AllWF ts → NP (RuleParse.pRule o f ts acc) := by
  intro f
  induction f with
  | zero => intro ts acc _ s h; simp [RuleParse.pRule] at h
  | succ f ih =>
    intro ts acc hw s h
    have s1 := fun g => (subAll o g).pIf
    have n1 := fun g => (noPanicAll o g).pIf
    simp only [RuleParse.pRule] at h
    (repeat' split at h) <;> (try (cases h)) <;>
      (try grind [NP, RSub, AllWF_sub, AllWF_tail, AllWF_head, List.subset_cons_self, List.Subset.trans, List.Subset.refl])

/-- `Rule::parse` never panics, for every text -/
theorem parseRuleText_noPanic (o : Oracle) (s : Str) : ∀ site, parseRuleText o s ≠ .panic site := by
  intro site h
  unfold parseRuleText at h
  split at h
  · cases h
  · rename_i ts hl
    have := pRule_NP o (ts.length + 2) ts [] (lex_wf s ts hl)
    (repeat' split at h) <;> (try (cases h)) <;> (try (simp_all [NP]; done)) <;>
      (unfold RuleParse.assemble at h; (repeat' split at h) <;> (try (cases h)))

end Reval
