/-
  Lemmas/KeepsType.lean — "only the explicit cast functions change a value's type": what the other operators return
  is a Bool, None, or a value of the type of their (left) operand; the one exception is DateTime − DateTime = Duration.
-/
import RevalModel.Lemmas.NoneType

namespace Reval

/-- the type of value a library primitive returns -/
def FOp.resultTy : FOp → Option Ty
  | .decAdd | .decSub | .decMul | .decDiv | .decRem | .decFloor | .decRound | .decFract | .f64ToDec | .strToDec => some .dec
  | .decToF64 | .strToF64 => some .float
  | .strToDateTime => some .dateTime
  | .strUpper | .strLower | .f64Show => some .str
  | .xidStart | .xidContinue => some .bool

/-- every answer of the library oracle has the type of the primitive it answers for -/
def Oracle.Typed (o : Oracle) : Prop := ∀ op args v, o op args = some (some v) → some v.ty = op.resultTy

theorem ask_ty {o : Oracle} (ho : o.Typed) {op : FOp} {args : List Value} {onFail : Res Value} {v : Value}
    (hf : ∀ w, onFail ≠ .ok w) (h : o.ask op args onFail = .ok v) : some v.ty = op.resultTy := by
  unfold Oracle.ask at h
  split at h
  · rename_i w hw; injection h with h; subst h; exact ho _ _ _ hw
  · exact absurd h (hf v)
  · simp at h

theorem decOut_ty {o : Oracle} (ho : o.Typed) {op : FOp} {args : List Value} {e : Err} {x : Dec.Out} {v : Value}
    (hop : op.resultTy = some .dec) (h : Impl.decOut o op args e x = .ok v) : v.ty = .dec := by
  cases x with
  | val d => simp [Impl.decOut] at h; subst h; rfl
  | overflow => simp [Impl.decOut] at h
  | unknown =>
    have := ask_ty ho (by simp) h
    rw [hop] at this; injection this

/-- the operators that are not casts, constructors or accessors -/
def UnOp.keepsType : UnOp → Bool
  | .not | .neg | .some | .isNone | .upper | .lower | .trim | .round | .floor | .fract => true
  | _ => false

macro "ty_triv" : tactic =>
  `(tactic| first
     | (simp at *; done)
     | (simp only [Res.ok.injEq] at *; subst_vars; simp [Value.ty]; done)
     | (simp only [Res.ok.injEq] at *; subst_vars; simp_all [Value.ty]; done))

theorem applyUn_keeps_type {o : Oracle} (ho : o.Typed) {op : UnOp} {v r : Value} (hk : op.keepsType = true)
    (h : applyUn o op v = .ok r) : r.ty = .bool ∨ r.ty = .none ∨ r.ty = v.ty := by
  cases op <;> simp [UnOp.keepsType] at hk <;> simp only [applyUn] at h
  case not => unfold Impl.not at h; split at h <;> ty_triv
  case neg => unfold Impl.neg at h; split at h <;> (try split at h) <;> ty_triv
  case some => unfold Impl.some at h; split at h <;> ty_triv
  case isNone => unfold Impl.isNone at h; split at h <;> ty_triv
  case upper =>
    unfold Impl.upper at h; split at h
    · split at h
      · ty_triv
      · have := ask_ty ho (by simp) h; simp [FOp.resultTy] at this; exact Or.inr (Or.inr (by rw [this]; rfl))
    · ty_triv
    · ty_triv
  case lower =>
    unfold Impl.lower at h; split at h
    · split at h
      · ty_triv
      · have := ask_ty ho (by simp) h; simp [FOp.resultTy] at this; exact Or.inr (Or.inr (by rw [this]; rfl))
    · ty_triv
    · ty_triv
  case trim => unfold Impl.trim at h; split at h <;> ty_triv
  case round =>
    unfold Impl.round at h; split at h
    · ty_triv
    · have := decOut_ty ho rfl h; exact Or.inr (Or.inr (by rw [this]; rfl))
    · ty_triv
    · ty_triv
  case floor =>
    unfold Impl.floor at h; split at h
    · ty_triv
    · have := decOut_ty ho rfl h; exact Or.inr (Or.inr (by rw [this]; rfl))
    · ty_triv
    · ty_triv
  case fract =>
    unfold Impl.fract at h; split at h
    · ty_triv
    · have := decOut_ty ho rfl h; exact Or.inr (Or.inr (by rw [this]; rfl))
    · ty_triv
    · ty_triv

theorem applyBin_keeps_type {o : Oracle} (ho : o.Typed) {op : BinOp} {a b r : Value}
    (h : applyBin o op a b = .ok r) :
    r.ty = .bool ∨ r.ty = .none ∨ r.ty = a.ty ∨
    (op = .sub ∧ a.ty = .dateTime ∧ b.ty = .dateTime ∧ r.ty = .duration) := by
  cases op <;> simp only [applyBin] at h
  case mult =>
    unfold Impl.mult at h; split at h
    · split at h <;> ty_triv
    · ty_triv
    · have := decOut_ty ho rfl h; exact Or.inr (Or.inr (Or.inl (by rw [this]; rfl)))
    all_goals ty_triv
  case div =>
    unfold Impl.div at h; split at h
    · split at h <;> ty_triv
    · ty_triv
    · split at h
      · simp at h
      · have := ask_ty ho (by simp) h; simp [FOp.resultTy] at this; exact Or.inr (Or.inr (Or.inl (by rw [this]; rfl)))
    all_goals ty_triv
  case rem =>
    unfold Impl.rem at h; split at h
    · split at h <;> ty_triv
    · ty_triv
    · split at h
      · simp at h
      · have := ask_ty ho (by simp) h; simp [FOp.resultTy] at this; exact Or.inr (Or.inr (Or.inl (by rw [this]; rfl)))
    all_goals ty_triv
  case add =>
    unfold Impl.add at h; split at h
    · split at h <;> ty_triv
    · ty_triv
    · have := decOut_ty ho rfl h; exact Or.inr (Or.inr (Or.inl (by rw [this]; rfl)))
    · split at h <;> ty_triv
    all_goals ty_triv
  case sub =>
    unfold Impl.sub at h; split at h
    · split at h <;> ty_triv
    · ty_triv
    · have := decOut_ty ho rfl h; exact Or.inr (Or.inr (Or.inl (by rw [this]; rfl)))
    · simp only [Res.ok.injEq] at h; subst h; simp [Value.ty]
    · split at h <;> ty_triv
    · split at h <;> ty_triv
    all_goals ty_triv
  case gt => unfold Impl.gt at h; split at h <;> ty_triv
  case gte => unfold Impl.gte at h; split at h <;> ty_triv
  case lt => unfold Impl.lt at h; split at h <;> ty_triv
  case lte => unfold Impl.lte at h; split at h <;> ty_triv
  case bitAnd => unfold Impl.bitwiseAnd at h; split at h <;> ty_triv
  case bitOr => unfold Impl.bitwiseOr at h; split at h <;> ty_triv
  case bitXor => unfold Impl.bitwiseXor at h; split at h <;> ty_triv
  case contains => unfold Impl.contains at h; split at h <;> ty_triv

end Reval
