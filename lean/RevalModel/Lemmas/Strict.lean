/-
  Lemmas/Strict.lean — "everything else once" (C05): an expression without lazy nodes that evaluates to a value
  reaches EVERY one of its call sites, each exactly once, in the static left-to-right order.
-/
import RevalModel.Lemmas.Lazy

namespace Reval

mutual
/-- no `if`, `and`, `or`, `==`, `!=` anywhere inside -/
def Expr.strict : Expr → Bool
  | .lit _ => true
  | .ref _ => true
  | .sym _ => true
  | .index e _ => e.strict
  | .call _ a => a.strict
  | .ite _ _ _ => false
  | .and _ _ => false
  | .or _ _ => false
  | .eq _ _ => false
  | .neq _ _ => false
  | .un _ e => e.strict
  | .bin _ l r => l.strict && r.strict
  | .vec xs => Expr.strictList xs
  | .map kvs => Expr.strictMap kvs
def Expr.strictList : List Expr → Bool
  | [] => true
  | e :: es => e.strict && Expr.strictList es
def Expr.strictMap : List (Str × Expr) → Bool
  | [] => true
  | (_, e) :: es => e.strict && Expr.strictMap es
end

theorem strict_ok_reaches_all_all (env : Env) :
    (∀ rp e st, e.strict = true → ∀ v st1 ev, eval env rp e st = (.ok v, st1, ev) → reached ev = sites rp e) ∧
    (∀ rp i kvs st, Expr.strictMap kvs = true → ∀ v st1 ev, evalMap env rp i kvs st = (.ok v, st1, ev) →
      reached ev = sitesMap rp i kvs) ∧
    (∀ rp i es st, Expr.strictList es = true → ∀ v st1 ev, evalList env rp i es st = (.ok v, st1, ev) →
      reached ev = sitesList rp i es) := by
  apply eval.mutual_induct env
    (motive_1 := fun rp e st => e.strict = true → ∀ v st1 ev, eval env rp e st = (.ok v, st1, ev) → reached ev = sites rp e)
    (motive_2 := fun rp i kvs st => Expr.strictMap kvs = true → ∀ v st1 ev, evalMap env rp i kvs st = (.ok v, st1, ev) →
      reached ev = sitesMap rp i kvs)
    (motive_3 := fun rp i es st => Expr.strictList es = true → ∀ v st1 ev, evalList env rp i es st = (.ok v, st1, ev) →
      reached ev = sitesList rp i es)
  all_goals (intros; simp only [eval, evalList, evalMap, sites, sitesList, sitesMap] at *)
  all_goals first
    | (simp_all [reached, Expr.strict, Expr.strictList, Expr.strictMap]; done)
    | (have hc := callFn_reached ‹callFn _ _ _ _ = _›
       simp_all [reached, Expr.strict, Expr.strictList, Expr.strictMap]; done)
    | (simp_all [reached, Expr.strict, Expr.strictList, Expr.strictMap]
       split at * <;> simp_all [reached]; done)
    | skip
  all_goals (rename_i h; simp only [Expr.strict, Expr.strictList, Expr.strictMap, Bool.and_eq_true] at *; simp only [*] at h)
  all_goals (simp only [Prod.mk.injEq] at h; obtain ⟨_, _, rfl⟩ := h)
  all_goals first
    | (simp_all [reached]; done)
    | (have hc := callFn_reached ‹callFn _ _ _ _ = _›; simp_all [reached])

theorem strict_ok_reaches_all (env : Env) (rp : List Nat) (e : Expr) (st : St) (hs : e.strict = true)
    (v : Value) (st1 : St) (ev : List Event) (h : eval env rp e st = (.ok v, st1, ev)) :
    reached ev = sites rp e := (strict_ok_reaches_all_all env).1 rp e st hs v st1 ev h

end Reval
