/-
  Lemmas/LexShow.lean — `lex (showExpr sf e) = some (dispToks sf e)`: the characters `Display` writes for an expression
  lex to exactly the token list the round-trip theorem is stated on (by induction over the printer, with the token
  lemmas of Lemmas/LexCompose.lean).
-/
import RevalModel.Lemmas.LexCompose
import RevalModel.Lemmas.DecText

namespace Reval.LexC
open Reval Reval.Lex Reval.G Reval.Disp

variable {sf : F64 → Str}

theorem fol_mono {dot : Bool} {r : Str} (h : Fol false r) : Fol dot r := h.mono dot

/-- literal leaves -/
theorem lexShow_lit (v : Value) (h : TextOK sf (.lit v)) : LexShow sf (.lit v) := by
  intro r T hr hT
  simp only [TextOK] at h
  rw [se_lit]
  simp only [dispToks, List.cons_append, List.nil_append]
  cases v
  case str s =>
    simp only [sv_str, litTok, List.cons_append, List.append_assoc, List.nil_append]
    have := Lexes.tok (w := '"' :: escapeStr s ++ ['"']) (T := T) (by simp) (by simpa using step_string s r) hT
    simpa [List.append_assoc] using this
  case int i =>
    simp only [sv_int, litTok, showInt]
    have hD := fun n => showNat_spec n
    by_cases hn : i < 0
    · simp only [hn, if_true]
      have := step_int (showNat i.natAbs) r true (!needsParens (.lit (.int i))) (hD _).2.1 (hD _).2.2 hr
      simp only [if_true] at this
      exact Lexes.tok (w := 'i' :: '-' :: showNat i.natAbs) (by simp) (by simpa using this) hT
    · simp only [hn, if_false]
      have := step_int (showNat i.toNat) r false (!needsParens (.lit (.int i))) (hD _).2.1 (hD _).2.2 hr
      simp only [Bool.false_eq_true, if_false] at this
      exact Lexes.tok (w := 'i' :: showNat i.toNat) (by simp) (by simpa using this) hT
  case float f =>
    simp only [sv_float, litTok]
    exact Lexes.tok (w := 'f' :: sf f) (by simp) (by simpa using h r (by simpa [needsParens] using hr)) hT
  case dec d =>
    simp only [sv_dec, litTok]
    exact Lexes.tok (w := 'd' :: showDec d) (by simp) (by simpa using dec_step d r (by simpa [needsParens] using hr)) hT
  case bool b =>
    cases b
    · simp only [sv_false, litTok]; exact lx_kw kwText_lit.2.1 _ hr hT
    · simp only [sv_true, litTok]; exact lx_kw kwText_lit.1 _ hr hT
  case none => simp only [sv_none, litTok]; exact lx_kw kwText_lit.2.2.1 _ hr hT
  all_goals (exfalso; simp [LitText] at h)

theorem startC_lit (c : Char) (h1 : Str.isWhite c = false) (h2 : c ≠ '=') (h3 : c ≠ '/') {s : Str} : Hd StartC (c :: s) :=
  hd_cons ⟨h1, h2, h3⟩

theorem lx_sp' {r : Str} {T : List Tok} (hr : Hd (fun c => Str.isWhite c = false) r) (h : Lexes r T) : Lexes (' ' :: r) T :=
  Lexes.skip (w := [' ']) (by simp) (step_space r hr) h

theorem lexShow_ref (n : Str) (h : TextOK sf (.ref n)) : LexShow sf (.ref n) := by
  intro r T hr hT
  simp only [TextOK] at h
  rw [se_ref]; simp only [dispToks, List.cons_append, List.nil_append]
  exact lx_ident h _ (by simp [needsParens]) hr hT

theorem lexShow_sym (n : Str) (h : TextOK sf (.sym n)) : LexShow sf (.sym n) := by
  intro r T hr hT
  simp only [TextOK] at h
  rw [se_sym]; simp only [dispToks, colon, List.cons_append, List.nil_append]
  refine lx_p1 (by decide) (h.start r).noEq_of_start ?_
  exact lx_ident h _ (by simp [needsParens]) hr hT

theorem lexShow_call (f : Str) (a : Expr) (h : TextOK sf (.call f a)) (iha : LexShow sf a) : LexShow sf (.call f a) := by
  intro r T hr hT
  simp only [TextOK] at h
  have hsa := start_showExpr a h.2
  rw [se_call]; simp only [dispToks, lp, rp, List.append_assoc, List.cons_append, List.nil_append]
  refine lx_ident h.1 false (by simp) (fol_open _ _) ?_
  refine lx_p1 (by decide) (hsa _).noEq_of_start ?_
  refine iha _ _ (fol_mono (fol_close _ _)) ?_
  exact lx_p1 (by decide) hr.noEq hT

theorem lexShow_un (op : UnOp) (e : Expr) (h : TextOK sf (.un op e)) (ih : LexShow sf e) : LexShow sf (.un op e) := by
  intro r T hr hT
  simp only [TextOK] at h
  have hs := start_showExpr e h
  have hr' : Hd (fun d => d ≠ '=' ∧ d ≠ '/') r := hr.noEq
  rw [se_un]; simp only [dispToks, lp, rp, List.append_assoc, List.cons_append, List.nil_append]
  by_cases h1 : op = .neg
  · subst h1
    simp only [unKw, unTok, minus, List.cons_append, List.nil_append]
    refine lx_p1 (by decide) (hd_noEq (by decide) (by decide)) ?_
    refine lx_p1 (by decide) (hs _).noEq_of_start ?_
    refine ih _ _ (fol_mono (fol_close _ _)) ?_
    exact lx_p1 (by decide) hr' hT
  · by_cases h2 : op = .not
    · subst h2
      simp only [unKw, unTok, bang, List.cons_append, List.nil_append]
      refine lx_p1 (by decide) (hd_noEq (by decide) (by decide)) ?_
      refine lx_p1 (by decide) (hs _).noEq_of_start ?_
      refine ih _ _ (fol_mono (fol_close _ _)) ?_
      exact lx_p1 (by decide) hr' hT
    · have hk := kwText_un op h1 h2
      have ht : unTok op = .kw (unKw op) := by cases op <;> first | rfl | exact absurd rfl h1 | exact absurd rfl h2
      rw [ht]
      refine lx_kw hk false (fol_open _ _) ?_
      refine lx_p1 (by decide) (hs _).noEq_of_start ?_
      refine ih _ _ (fol_mono (fol_close _ _)) ?_
      exact lx_p1 (by decide) hr' hT

theorem lexShow_index (e : Expr) (i : Index) (h : TextOK sf (.index e i)) (ih : LexShow sf e) : LexShow sf (.index e i) := by
  intro r T hr hT
  have hr' : Hd (fun d => d ≠ '=' ∧ d ≠ '/') r := hr.noEq
  have hte : TextOK sf e := by cases i <;> simp only [TextOK] at h <;> first | exact h.2 | exact h
  have hs := start_showExpr e hte
  rw [se_index]
  simp only [dispToks, wrap, lp, rp, dot, List.append_assoc, List.cons_append, List.nil_append]
  have hstart : Hd (fun d => d ≠ '=' ∧ d ≠ '/')
      ((if needsParens e = true then '(' :: (showExpr sf e ++ [')']) else showExpr sf e) ++
        '.' :: (idxText i ++ ')' :: r)) := by
    split
    · exact hd_noEq (by decide) (by decide)
    · exact (hs _).noEq_of_start
  refine lx_p1 (by decide) hstart ?_
  have key : Lexes ('.' :: (idxText i ++ ')' :: r)) (.p ['.'] :: idxTok i :: .p [')'] :: T) := by
    cases i with
    | key k =>
      simp only [TextOK] at h
      simp only [idxTok, idxText]
      refine lx_p1 (by decide) (h.1.start _).noEq_of_start ?_
      refine lx_ident h.1 false (by simp) (fol_close _ _) ?_
      exact lx_p1 (by decide) hr' hT
    | pos n =>
      simp only [idxTok, idxText]
      obtain ⟨_, hall, hne⟩ := showNat_spec n
      obtain ⟨a, D, hD⟩ : ∃ a D, showNat n = a :: D := by
        cases hsn : showNat n with
        | nil => exact absurd hsn hne
        | cons a D => exact ⟨a, D, rfl⟩
      rw [hD] at hall ⊢
      simp only [List.all_cons, Bool.and_eq_true] at hall
      have hda := digit_not_sign hall.1
      refine lx_p1 (by decide) (hd_noEq (fun e => by subst e; exact absurd hall.1 (by decide)) hda.2.2.1) ?_
      have := step_index a D (')' :: r) false hall.1 hall.2 (fol_close _ _)
      refine Lexes.tok (w := a :: D) (by simp) (by simpa using this) ?_
      exact lx_p1 (by decide) hr' hT
  have := lx_operand (sf := sf) ih hs (r := '.' :: (idxText i ++ ')' :: r)) (fol_dot _) key
  simpa [wrap, lp, rp, List.append_assoc] using this

theorem lexShow_and (l r' : Expr) (h : TextOK sf (.and l r')) (ihl : LexShow sf l) (ihr : LexShow sf r') :
    LexShow sf (.and l r') := by
  intro r T hr hT
  simp only [TextOK] at h
  have hsl := start_showExpr l h.1
  have hsr := start_showExpr r' h.2
  rw [se_and]; simp only [dispToks, wrap, lp, rp, List.append_assoc, List.cons_append, List.nil_append]
  refine lx_p1 (by decide) (hsl _).noEq_of_start ?_
  refine ihl _ _ (fol_mono (fol_space _ _)) ?_
  refine lx_sp (startC_lit _ (by decide) (by decide) (by decide)) ?_
  refine lx_kw (w := ['a', 'n', 'd']) kwText_lit.2.2.2.2.2.2.1 false (fol_space _ _) ?_
  refine lx_sp (hsr _) ?_
  refine ihr _ _ (fol_mono (fol_close _ _)) ?_
  exact lx_p1 (by decide) hr.noEq hT

theorem lexShow_or (l r' : Expr) (h : TextOK sf (.or l r')) (ihl : LexShow sf l) (ihr : LexShow sf r') :
    LexShow sf (.or l r') := by
  intro r T hr hT
  simp only [TextOK] at h
  have hsl := start_showExpr l h.1
  have hsr := start_showExpr r' h.2
  rw [se_or]; simp only [dispToks, wrap, lp, rp, List.append_assoc, List.cons_append, List.nil_append]
  refine lx_p1 (by decide) (hsl _).noEq_of_start ?_
  refine ihl _ _ (fol_mono (fol_space _ _)) ?_
  refine lx_sp (startC_lit _ (by decide) (by decide) (by decide)) ?_
  refine lx_kw (w := ['o', 'r']) kwText_lit.2.2.2.2.2.2.2.1 false (fol_space _ _) ?_
  refine lx_sp (hsr _) ?_
  refine ihr _ _ (fol_mono (fol_close _ _)) ?_
  exact lx_p1 (by decide) hr.noEq hT

theorem lexShow_eq (l r' : Expr) (h : TextOK sf (.eq l r')) (ihl : LexShow sf l) (ihr : LexShow sf r') :
    LexShow sf (.eq l r') := by
  intro r T hr hT
  simp only [TextOK] at h
  have hsl := start_showExpr l h.1
  have hsr := start_showExpr r' h.2
  rw [se_eq]; simp only [dispToks, wrap, lp, rp, List.append_assoc, List.cons_append, List.nil_append]
  refine lx_p1 (by decide) (hsl _).noEq_of_start ?_
  refine ihl _ _ (fol_mono (fol_space _ _)) ?_
  refine lx_sp' (hd_cons (by decide)) ?_
  refine lx_p2 (by decide) ?_
  refine lx_sp (hsr _) ?_
  refine ihr _ _ (fol_mono (fol_close _ _)) ?_
  exact lx_p1 (by decide) hr.noEq hT

theorem lexShow_neq (l r' : Expr) (h : TextOK sf (.neq l r')) (ihl : LexShow sf l) (ihr : LexShow sf r') :
    LexShow sf (.neq l r') := by
  intro r T hr hT
  simp only [TextOK] at h
  have hsl := start_showExpr l h.1
  have hsr := start_showExpr r' h.2
  rw [se_neq]; simp only [dispToks, wrap, lp, rp, List.append_assoc, List.cons_append, List.nil_append]
  refine lx_p1 (by decide) (hsl _).noEq_of_start ?_
  refine ihl _ _ (fol_mono (fol_space _ _)) ?_
  refine lx_sp' (hd_cons (by decide)) ?_
  refine lx_p2 (by decide) ?_
  refine lx_sp (hsr _) ?_
  refine ihr _ _ (fol_mono (fol_close _ _)) ?_
  exact lx_p1 (by decide) hr.noEq hT

theorem lexShow_ite (c t e : Expr) (h : TextOK sf (.ite c t e)) (ihc : LexShow sf c) (iht : LexShow sf t) (ihe : LexShow sf e) :
    LexShow sf (.ite c t e) := by
  intro r T hr hT
  simp only [TextOK] at h
  have hsc := start_showExpr c h.1
  have hst := start_showExpr t h.2.1
  have hse := start_showExpr e h.2.2
  rw [se_ite]; simp only [dispToks, wrap, lp, rp, kwIf, kwThen, kwElse, List.append_assoc, List.cons_append, List.nil_append]
  refine lx_p1 (by decide) (hd_noEq (by decide) (by decide)) ?_
  refine lx_kw (w := ['i', 'f']) kwText_lit.2.2.2.1 false (fol_space _ _) ?_
  refine lx_sp (hsc _) ?_
  refine ihc _ _ (fol_mono (fol_space _ _)) ?_
  refine lx_sp (startC_lit _ (by decide) (by decide) (by decide)) ?_
  refine lx_kw (w := ['t', 'h', 'e', 'n']) kwText_lit.2.2.2.2.1 false (fol_space _ _) ?_
  refine lx_sp (hst _) ?_
  refine iht _ _ (fol_mono (fol_space _ _)) ?_
  refine lx_sp (startC_lit _ (by decide) (by decide) (by decide)) ?_
  refine lx_kw (w := ['e', 'l', 's', 'e']) kwText_lit.2.2.2.2.2.1 false (fol_space _ _) ?_
  refine lx_sp (hse _) ?_
  refine ihe _ _ (fol_mono (fol_close _ _)) ?_
  exact lx_p1 (by decide) hr.noEq hT

/-- a binary operator token other than `contains`, written between spaces -/
theorem lx_optok (op : BinOp) (hnc : op ≠ .contains) {x : Str} {T : List Tok} (hx : Hd StartC x) (h : Lexes x T) :
    Lexes (tokText (binTok op) ++ ' ' :: x) (binTok op :: T) := by
  have sp : Hd (fun d => d ≠ '=' ∧ d ≠ '/') (' ' :: x) := hd_noEq (by decide) (by decide)
  cases op <;> simp only [binTok, tokText, List.cons_append, List.nil_append]
  case contains => exact absurd rfl hnc
  case gte => exact lx_p2 (by decide) (lx_sp hx h)
  case lte => exact lx_p2 (by decide) (lx_sp hx h)
  all_goals exact lx_p1 (by decide) sp (lx_sp hx h)

theorem optok_nonwhite (op : BinOp) (hnc : op ≠ .contains) (x : Str) :
    Hd (fun c => Str.isWhite c = false) (tokText (binTok op) ++ x) := by
  cases op <;> simp only [binTok, tokText, List.cons_append, List.nil_append]
  case contains => exact absurd rfl hnc
  all_goals exact hd_cons (by decide)

theorem operand_start {e : Expr} (hs : ∀ r, Hd StartC (showExpr sf e ++ r)) (r : Str) :
    Hd StartC ((if needsParens e then '(' :: showExpr sf e ++ [')'] else showExpr sf e) ++ r) := by
  split
  · exact startC_lit _ (by decide) (by decide) (by decide)
  · exact hs r

theorem lexShow_bitwise (op : BinOp) (l r' : Expr) (hb : isBitwise op = true) (h : TextOK sf (.bin op l r'))
    (ihl : LexShow sf l) (ihr : LexShow sf r') : LexShow sf (.bin op l r') := by
  intro r T hr hT
  simp only [TextOK] at h
  have hsl := start_showExpr l h.1
  have hsr := start_showExpr r' h.2
  have hnc : op ≠ .contains := by intro e; subst e; simp [isBitwise] at hb
  have hr0 : Fol false r := by simpa [needsParens, hb] using hr
  rw [se_bin]; simp only [dispToks, hb, if_true, List.append_assoc, List.cons_append, List.nil_append]
  refine ihl _ _ (fol_mono (fol_space _ _)) ?_
  refine lx_sp' (optok_nonwhite op hnc _) ?_
  refine lx_optok op hnc (operand_start hsr r) ?_
  exact lx_operand ihr hsr (fol_mono hr0) hT

theorem lexShow_contains (l r' : Expr) (h : TextOK sf (.bin .contains l r')) (ihl : LexShow sf l) (ihr : LexShow sf r') :
    LexShow sf (.bin .contains l r') := by
  intro r T hr hT
  simp only [TextOK] at h
  have hsl := start_showExpr l h.1
  have hsr := start_showExpr r' h.2
  rw [se_bin]
  simp only [dispToks, isBitwise, Bool.false_eq_true, if_false, if_true, wrap, lp, rp, kwContains, List.append_assoc, List.cons_append, List.nil_append]
  refine lx_p1 (by decide) (operand_start hsl _).noEq_of_start ?_
  refine lx_operand ihl hsl (fol_space true _) ?_
  refine lx_sp (startC_lit _ (by decide) (by decide) (by decide)) ?_
  refine lx_kw (w := ['c', 'o', 'n', 't', 'a', 'i', 'n', 's']) kwText_lit.2.2.2.2.2.2.2.2 false (fol_space _ _) ?_
  refine lx_sp (operand_start hsr _) ?_
  refine lx_operand ihr hsr (fol_close true _) ?_
  exact lx_p1 (by decide) hr.noEq hT

theorem lexShow_binop (op : BinOp) (l r' : Expr) (hb : ¬ isBitwise op = true) (hnc : op ≠ .contains) (h : TextOK sf (.bin op l r'))
    (ihl : LexShow sf l) (ihr : LexShow sf r') : LexShow sf (.bin op l r') := by
  intro r T hr hT
  simp only [TextOK] at h
  have hsl := start_showExpr l h.1
  have hsr := start_showExpr r' h.2
  have hd : dispToks sf (.bin op l r') = lp :: ((dispToks sf l ++ binTok op :: dispToks sf r') ++ [rp]) := by
    simp only [dispToks, hb, hnc, if_false, wrap, Bool.false_eq_true]
  rw [se_bin, if_neg hb, if_neg hnc, hd]
  simp only [lp, rp, List.append_assoc, List.cons_append, List.nil_append]
  refine lx_p1 (by decide) (hsl _).noEq_of_start ?_
  refine ihl _ _ (fol_mono (fol_space _ _)) ?_
  refine lx_sp' (optok_nonwhite op hnc _) ?_
  refine lx_optok op hnc (hsr _) ?_
  refine ihr _ _ (fol_mono (fol_close _ _)) ?_
  exact lx_p1 (by decide) hr.noEq hT

/-! ### lists and maps -/

theorem js_nil (sep : Str) : joinSep sep [] = [] := rfl
theorem js_one (sep x : Str) : joinSep sep [x] = x := rfl
theorem js_cons (sep x y : Str) (ys : List Str) : joinSep sep (x :: y :: ys) = x ++ sep ++ joinSep sep (y :: ys) := rfl

/-- what the induction proves for the items of a list literal (after `[`, through `]`) -/
def LexList (sf : F64 → Str) (xs : List Expr) : Prop :=
  ∀ (dot : Bool) r T, Fol dot r → Lexes r T →
    Lexes (joinSep [',', ' '] (showExprs sf xs) ++ ']' :: r) (dispList sf xs ++ T) ∧
    Hd StartC (joinSep [',', ' '] (showExprs sf xs) ++ ']' :: r)

/-- … and for the entries of a map literal (after `{`, through `}`) -/
def LexEntries (sf : F64 → Str) (kvs : List (Str × Expr)) : Prop :=
  ∀ (dot : Bool) r T, Fol dot r → Lexes r T →
    Lexes (joinSep [',', ' '] (showEntries sf kvs) ++ '}' :: r) (dispEntries sf kvs ++ T) ∧
    Hd StartC (joinSep [',', ' '] (showEntries sf kvs) ++ '}' :: r)

theorem lexList_nil : LexList sf [] := by
  intro dot r T hr hT
  simp only [ses_nil, js_nil, dispList, List.nil_append, List.cons_append]
  exact ⟨lx_p1 (by decide) hr.noEq hT, startC_lit _ (by decide) (by decide) (by decide)⟩

theorem lexList_one (e : Expr) (h : TextOK sf e) (ih : LexShow sf e) : LexList sf [e] := by
  intro dot r T hr hT
  have hs := start_showExpr e h
  simp only [ses_cons, ses_nil, js_one, dispList, List.append_assoc, List.cons_append, List.nil_append]
  exact ⟨ih _ _ (fol_mono (fol_rbr _ _)) (lx_p1 (by decide) hr.noEq hT), hs _⟩

theorem lexList_cons (e e2 : Expr) (es : List Expr) (h : TextOK sf e) (ih : LexShow sf e) (ihs : LexList sf (e2 :: es)) :
    LexList sf (e :: e2 :: es) := by
  intro dot r T hr hT
  have hs := start_showExpr e h
  obtain ⟨h1, h2⟩ := ihs dot r T hr hT
  simp only [ses_cons] at h1 h2 ⊢
  simp only [js_cons, dispList, comma, List.append_assoc, List.cons_append, List.nil_append]
  refine ⟨?_, hs _⟩
  refine ih _ _ (fol_mono (fol_comma _ _)) ?_
  refine lx_p1 (by decide) (hd_noEq (by decide) (by decide)) ?_
  exact lx_sp h2 h1

theorem lexEntries_nil : LexEntries sf [] := by
  intro dot r T hr hT
  simp only [sen_nil, js_nil, dispEntries, List.nil_append, List.cons_append]
  exact ⟨lx_p1 (by decide) hr.noEq hT, startC_lit _ (by decide) (by decide) (by decide)⟩

theorem lexEntries_one (k : Str) (e : Expr) (hk : NameOK k) (h : TextOK sf e) (ih : LexShow sf e) : LexEntries sf [(k, e)] := by
  intro dot r T hr hT
  have hs := start_showExpr e h
  simp only [sen_cons, sen_nil, js_one, dispEntries, colon, List.append_assoc, List.cons_append, List.nil_append]
  refine ⟨?_, hk.start _⟩
  refine lx_ident hk false (by simp) (fol_colon _ _) ?_
  refine lx_p1 (by decide) (hd_noEq (by decide) (by decide)) ?_
  refine lx_sp (hs _) ?_
  exact ih _ _ (fol_mono (fol_rbrace _ _)) (lx_p1 (by decide) hr.noEq hT)

theorem lexEntries_cons (k : Str) (e : Expr) (kv2 : Str × Expr) (kvs : List (Str × Expr)) (hk : NameOK k) (h : TextOK sf e)
    (ih : LexShow sf e) (ihs : LexEntries sf (kv2 :: kvs)) : LexEntries sf ((k, e) :: kv2 :: kvs) := by
  intro dot r T hr hT
  have hs := start_showExpr e h
  obtain ⟨h1, h2⟩ := ihs dot r T hr hT
  obtain ⟨k2, e2⟩ := kv2
  simp only [sen_cons] at h1 h2 ⊢
  simp only [List.append_assoc, List.cons_append, List.nil_append] at h1 h2
  simp only [js_cons, dispEntries, colon, comma, List.append_assoc, List.cons_append, List.nil_append]
  refine ⟨?_, hk.start _⟩
  refine lx_ident hk false (by simp) (fol_colon _ _) ?_
  refine lx_p1 (by decide) (hd_noEq (by decide) (by decide)) ?_
  refine lx_sp (hs _) ?_
  refine ih _ _ (fol_mono (fol_comma _ _)) ?_
  refine lx_p1 (by decide) (hd_noEq (by decide) (by decide)) ?_
  exact lx_sp h2 h1

theorem lexShow_vec (xs : List Expr) (ih : LexList sf xs) : LexShow sf (.vec xs) := by
  intro r T hr hT
  obtain ⟨h1, h2⟩ := ih _ r T hr hT
  rw [se_vec]; simp only [dispToks, List.append_assoc, List.cons_append, List.nil_append]
  exact lx_p1 (by decide) h2.noEq_of_start h1

theorem lexShow_map (kvs : List (Str × Expr)) (ih : LexEntries sf kvs) : LexShow sf (.map kvs) := by
  intro r T hr hT
  obtain ⟨h1, h2⟩ := ih _ r T hr hT
  rw [se_map]; simp only [dispToks, List.append_assoc, List.cons_append, List.nil_append]
  exact lx_p1 (by decide) h2.noEq_of_start h1

/-! ### the theorem -/

theorem lexShow_all :
    (∀ e, TextOK sf e → LexShow sf e) ∧ (∀ kvs, TextOKM sf kvs → LexEntries sf kvs) ∧ (∀ xs, TextOKL sf xs → LexList sf xs) := by
  apply dispToks.mutual_induct
  · exact fun v h => lexShow_lit v h
  · exact fun n h => lexShow_ref n h
  · exact fun n h => lexShow_sym n h
  · exact fun f a ih h => lexShow_call f a h (ih (by simp only [TextOK] at h; exact h.2))
  · intro e i ih h
    exact lexShow_index e i h (ih (by cases i <;> simp only [TextOK] at h <;> first | exact h.2 | exact h))
  · intro c t e ihc iht ihe h
    have h' := h; simp only [TextOK] at h'
    exact lexShow_ite c t e h (ihc h'.1) (iht h'.2.1) (ihe h'.2.2)
  · intro l r ihl ihr h; have h' := h; simp only [TextOK] at h'; exact lexShow_and l r h (ihl h'.1) (ihr h'.2)
  · intro l r ihl ihr h; have h' := h; simp only [TextOK] at h'; exact lexShow_or l r h (ihl h'.1) (ihr h'.2)
  · intro l r ihl ihr h; have h' := h; simp only [TextOK] at h'; exact lexShow_eq l r h (ihl h'.1) (ihr h'.2)
  · intro l r ihl ihr h; have h' := h; simp only [TextOK] at h'; exact lexShow_neq l r h (ihl h'.1) (ihr h'.2)
  · intro op e ih h; exact lexShow_un op e h (ih (by simpa only [TextOK] using h))
  · intro op l r hb ihl ihr h; have h' := h; simp only [TextOK] at h'; exact lexShow_bitwise op l r hb h (ihl h'.1) (ihr h'.2)
  · intro l r _ ihl ihr h; have h' := h; simp only [TextOK] at h'; exact lexShow_contains l r h (ihl h'.1) (ihr h'.2)
  · intro op l r hb hnc ihl ihr h; have h' := h; simp only [TextOK] at h'; exact lexShow_binop op l r hb hnc h (ihl h'.1) (ihr h'.2)
  · intro xs ih h; exact lexShow_vec xs (ih (by simpa only [TextOK] using h))
  · intro kvs ih h; exact lexShow_map kvs (ih (by simpa only [TextOK] using h))
  · exact fun _ => lexList_nil
  · intro e ih h; simp only [TextOKL] at h; exact lexList_one e h.1 (ih h.1)
  · intro e e2 es ih ihs h; simp only [TextOKL] at h; exact lexList_cons e e2 es h.1 (ih h.1) (ihs (by simp only [TextOKL]; exact h.2))
  · exact fun _ => lexEntries_nil
  · intro k e ih h; simp only [TextOKM] at h; exact lexEntries_one k e h.1 h.2.1 (ih h.2.1)
  · intro k e kv2 kvs ih ihs h
    obtain ⟨k2, e2⟩ := kv2
    simp only [TextOKM] at h
    exact lexEntries_cons k e (k2, e2) kvs h.1 h.2.1 (ih h.2.1) (ihs (by simp only [TextOKM]; exact h.2.2))

/-- **the characters `Display` writes lex to exactly the tokens `dispToks`** -/
theorem lex_showExpr (e : Expr) (h : TextOK sf e) : lex (showExpr sf e) = some (dispToks sf e) := by
  have := (lexShow_all.1 e h) [] [] trivial Lexes.nil
  simpa using this.lex

end Reval.LexC
