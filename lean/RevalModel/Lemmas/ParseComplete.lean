/-
  Lemmas/ParseComplete.lean — the converse of Lemmas/RoundTrip: whatever the parser accepts is a rendering under the
  precedence table.  If a parse function returns `.ok e r` on `ts` (at any fuel), then `ts = T ++ r` for a token list
  `T` that renders `e` at that function's level.
-/
import RevalModel.Lemmas.RoundTrip

set_option linter.unusedSimpArgs false
set_option linter.unusedVariables false

namespace Reval.G
open Reval

theorem R_weaken {o : Oracle} {k j : Nat} {e : Expr} {T : List Tok} (h : R o k e T) (hj : j ≤ k) : R o j e T := by
  cases h with
  | bare _ _ _ hl hbody => exact R.bare j e T (by omega) hbody
  | paren _ _ T h => exact R.paren j e T h

/-- what each parse function returns, as a derivation -/
structure Sound (o : Oracle) (f : Nat) : Prop where
  pIf : ∀ ts e r, pIf o f ts = .ok e r → ∃ T, ts = T ++ r ∧ R o 0 e T
  pBin : ∀ k ts e r, 1 ≤ k → k ≤ 6 → pBin o f k ts = .ok e r → ∃ T, ts = T ++ r ∧ R o k e T
  pBinLoop : ∀ k acc ts e r, 1 ≤ k → k ≤ 5 → pBinLoop o f k acc ts = .ok e r →
    ∀ Tacc, R o k acc Tacc → ∃ T', ts = T' ++ r ∧ R o k e (Tacc ++ T')
  pContains : ∀ ts e r, pContains o f ts = .ok e r → ∃ T, ts = T ++ r ∧ R o 6 e T
  pContainsTail : ∀ ts e r, pContainsTail o f ts = .ok e r → ∃ T, ts = T ++ r ∧ R o 6 e T
  pUnary : ∀ ts e r, pUnary o f ts = .ok e r → ∃ T, ts = T ++ r ∧ R o 7 e T
  pIndex : ∀ ts e r, pIndex o f ts = .ok e r → ∃ T, ts = T ++ r ∧ R o 8 e T
  pIndexLoop : ∀ acc ts e r, pIndexLoop o f acc ts = .ok e r →
    ∀ Tacc, R o 8 acc Tacc → ∃ T', ts = T' ++ r ∧ R o 8 e (Tacc ++ T')
  pTerm : ∀ ts e r, pTerm o f ts = .ok e r → ∃ T, ts = T ++ r ∧ R o 9 e T
  pVecItems : ∀ ts xs r, pVecItems o f ts = .ok xs r → ∃ T, ts = T ++ r ∧ RList o xs T
  pMapItems : ∀ ts kvs r, pMapItems o f ts = .ok kvs r → ∃ T, ts = T ++ r ∧ RMap o kvs T

theorem sound_zero (o : Oracle) : Sound o 0 := by
  constructor <;> intros <;> simp_all [Reval.pIf, Reval.pBin, Reval.pBinLoop, Reval.pContains, Reval.pContainsTail, Reval.pUnary,
    Reval.pIndex, Reval.pIndexLoop, Reval.pTerm, Reval.pVecItems, Reval.pMapItems]

section
variable {o : Oracle} {f : Nat}

theorem step_pIf (ih : Sound o f) : ∀ ts e r, Reval.pIf o (f + 1) ts = .ok e r → ∃ T, ts = T ++ r ∧ R o 0 e T := by
  intro ts e r h
  simp only [Reval.pIf] at h
  split at h
  next k r0 =>
    split at h
    next hk =>
      split at h
      next c r1 hc =>
        split at h
        next k1 r2 =>
          split at h
          next hk1 =>
            split at h
            next t r3 ht =>
              split at h
              next k2 r4 =>
                split at h
                next hk2 =>
                  split at h
                  next e3 r5 he =>
                    cases h
                    obtain ⟨Tc, hTc, hRc⟩ := ih.pIf _ _ _ hc
                    obtain ⟨Tt, hTt, hRt⟩ := ih.pIf _ _ _ ht
                    obtain ⟨Te, hTe, hRe⟩ := ih.pIf _ _ _ he
                    subst hk hk1 hk2
                    refine ⟨kwIf :: (Tc ++ kwThen :: (Tt ++ kwElse :: Te)), ?_, ?_⟩
                    · rw [hTc, hTt, hTe]; simp [kwIf, kwThen, kwElse]
                    · exact R.bare 0 _ _ (Nat.zero_le _) (Body.ite _ _ _ Tc Tt Te hRc hRt hRe)
                  next hne => exact (hne _ _ h).elim
                next => cases h
              next => cases h
            next hne => exact (hne _ _ h).elim
          next => cases h
        next => cases h
      next hne => exact (hne _ _ h).elim
    next =>
      obtain ⟨T, hT, hR⟩ := ih.pBin 1 _ _ _ (by omega) (by omega) h
      exact ⟨T, hT, R_weaken hR (by omega)⟩
  next =>
    obtain ⟨T, hT, hR⟩ := ih.pBin 1 _ _ _ (by omega) (by omega) h
    exact ⟨T, hT, R_weaken hR (by omega)⟩

theorem step_pBin (ih : Sound o f) : ∀ k ts e r, 1 ≤ k → k ≤ 6 → Reval.pBin o (f + 1) k ts = .ok e r →
    ∃ T, ts = T ++ r ∧ R o k e T := by
  intro k ts e r h1 h6 h
  simp only [Reval.pBin] at h
  split at h
  next hk =>
    have : k = 6 := by omega
    subst this
    exact ih.pContains _ _ _ h
  next hk =>
    split at h
    next l r1 hl =>
      obtain ⟨T1, hT1, hR1⟩ := ih.pBin (k + 1) _ _ _ (by omega) (by omega) hl
      obtain ⟨T', hT', hR'⟩ := ih.pBinLoop k l r1 e r h1 (by omega) h T1 (R_weaken hR1 (by omega))
      exact ⟨T1 ++ T', by rw [hT1, hT']; simp, hR'⟩
    next hne => exact (hne _ _ h).elim

theorem step_pBinLoop (ih : Sound o f) : ∀ k acc ts e r, 1 ≤ k → k ≤ 5 → Reval.pBinLoop o (f + 1) k acc ts = .ok e r →
    ∀ Tacc, R o k acc Tacc → ∃ T', ts = T' ++ r ∧ R o k e (Tacc ++ T') := by
  intro k acc ts e r h1 h5 h Tacc hacc
  simp only [Reval.pBinLoop] at h
  split at h
  next t r0 =>
    split at h
    next mk hop =>
      split at h
      next x r1 hx =>
        obtain ⟨Tx, hTx, hRx⟩ := ih.pBin (k + 1) _ _ _ (by omega) (by omega) hx
        have hlvl := (binOpAt_tok hop).2.2.2.2.2.2
        have hnode : R o k (mk acc x) (Tacc ++ t :: Tx) :=
          R.bare k _ _ (by rw [hlvl]; exact Nat.le_refl k) (Body.bin k t mk acc x Tacc Tx h1 h5 hop hacc hRx)
        obtain ⟨T'', hT'', hR''⟩ := ih.pBinLoop k _ _ e r h1 h5 h _ hnode
        refine ⟨t :: (Tx ++ T''), by rw [hTx, hT'']; simp, ?_⟩
        have : Tacc ++ t :: (Tx ++ T'') = (Tacc ++ t :: Tx) ++ T'' := by simp
        rw [this]; exact hR''
      next hne => exact (hne _ _ h).elim
    next =>
      cases h
      exact ⟨[], by simp, by simpa using hacc⟩
  next =>
    cases h
    exact ⟨[], by simp, by simpa using hacc⟩

theorem step_pContains (ih : Sound o f) : ∀ ts e r, Reval.pContains o (f + 1) ts = .ok e r → ∃ T, ts = T ++ r ∧ R o 6 e T := by
  intro ts e r h
  simp only [Reval.pContains] at h
  split at h
  next s r0 =>
    split at h
    next =>
      obtain ⟨T, hT, hR⟩ := ih.pUnary _ _ _ h
      exact ⟨T, hT, R_weaken hR (by omega)⟩
    next => exact ih.pContainsTail _ _ _ h
  next => exact ih.pContainsTail _ _ _ h

theorem step_pContainsTail (ih : Sound o f) : ∀ ts e r, Reval.pContainsTail o (f + 1) ts = .ok e r →
    ∃ T, ts = T ++ r ∧ R o 6 e T := by
  intro ts e r h
  simp only [Reval.pContainsTail] at h
  split at h
  next l r0 hl =>
    obtain ⟨Tl, hTl, hRl⟩ := ih.pIndex _ _ _ hl
    split at h
    next k r1 =>
      split at h
      next hk =>
        split at h
        next x r2 hx =>
          cases h
          obtain ⟨Tx, hTx, hRx⟩ := ih.pIndex _ _ _ hx
          subst hk
          refine ⟨Tl ++ kwContains :: Tx, by rw [hTl, hTx]; simp [kwContains], ?_⟩
          exact R.bare 6 _ _ (by simp [lvl, binLvl]) (Body.contains l x Tl Tx hRl hRx)
        next hne => exact (hne _ _ h).elim
      next hk =>
        split at h
        next hk2 =>
          split at h
          next x r2 hx =>
            cases h
            obtain ⟨Tx, hTx, hRx⟩ := ih.pIndex _ _ _ hx
            subst hk2
            refine ⟨Tl ++ kwIn :: Tx, by rw [hTl, hTx]; simp [kwIn], ?_⟩
            exact R.bare 6 _ _ (by simp [lvl, binLvl]) (Body.isIn x l Tx Tl hRx hRl)
          next hne => exact (hne _ _ h).elim
        next =>
          cases h
          exact ⟨Tl, hTl, R_weaken hRl (by omega)⟩
    next =>
      cases h
      exact ⟨Tl, hTl, R_weaken hRl (by omega)⟩
  next hne => exact (hne _ _ h).elim

theorem step_pUnary (ih : Sound o f) : ∀ ts e r, Reval.pUnary o (f + 1) ts = .ok e r → ∃ T, ts = T ++ r ∧ R o 7 e T := by
  intro ts e r h
  simp only [Reval.pUnary] at h
  split at h
  next s r0 =>
    split at h
    next hs =>
      split at h
      next e1 r1 he =>
        cases h
        obtain ⟨T, hT, hR⟩ := ih.pUnary _ _ _ he
        subst hs
        exact ⟨minus :: T, by rw [hT]; simp [minus], R.bare 7 _ _ (by simp [lvl]) (Body.neg e1 T hR)⟩
      next hne => exact (hne _ _ h).elim
    next hs =>
      split at h
      next hs2 =>
        split at h
        next e1 r1 he =>
          cases h
          obtain ⟨T, hT, hR⟩ := ih.pUnary _ _ _ he
          subst hs2
          exact ⟨bang :: T, by rw [hT]; simp [bang], R.bare 7 _ _ (by simp [lvl]) (Body.not e1 T hR)⟩
        next hne => exact (hne _ _ h).elim
      next =>
        obtain ⟨T, hT, hR⟩ := ih.pIndex _ _ _ h
        exact ⟨T, hT, R_weaken hR (by omega)⟩
  next =>
    obtain ⟨T, hT, hR⟩ := ih.pIndex _ _ _ h
    exact ⟨T, hT, R_weaken hR (by omega)⟩

theorem step_pIndex (ih : Sound o f) : ∀ ts e r, Reval.pIndex o (f + 1) ts = .ok e r → ∃ T, ts = T ++ r ∧ R o 8 e T := by
  intro ts e r h
  simp only [Reval.pIndex] at h
  split at h
  next l r0 hl =>
    obtain ⟨Tl, hTl, hRl⟩ := ih.pTerm _ _ _ hl
    obtain ⟨T', hT', hR'⟩ := ih.pIndexLoop l r0 e r h Tl (R_weaken hRl (by omega))
    exact ⟨Tl ++ T', by rw [hTl, hT']; simp, hR'⟩
  next hne => exact (hne _ _ h).elim

theorem step_pIndexLoop (ih : Sound o f) : ∀ acc ts e r, Reval.pIndexLoop o (f + 1) acc ts = .ok e r →
    ∀ Tacc, R o 8 acc Tacc → ∃ T', ts = T' ++ r ∧ R o 8 e (Tacc ++ T') := by
  intro acc ts e r h Tacc hacc
  simp only [Reval.pIndexLoop] at h
  split at h
  next s r0 =>
    split at h
    next hs =>
      subst hs
      split at h
      next k r1 =>
        have hnode : R o 8 (.index acc (.key k)) (Tacc ++ [dot, .ident k]) :=
          R.bare 8 _ _ (by simp [lvl]) (Body.indexKey acc Tacc k hacc)
        obtain ⟨T'', hT'', hR''⟩ := ih.pIndexLoop _ _ e r h _ hnode
        refine ⟨dot :: .ident k :: T'', by rw [hT'']; simp [dot], ?_⟩
        have : Tacc ++ dot :: .ident k :: T'' = (Tacc ++ [dot, .ident k]) ++ T'' := by simp
        rw [this]; exact hR''
      next ds r1 =>
        split at h
        next hn =>
          have hnode : R o 8 (.index acc (.pos (Str.ofDigits ds))) (Tacc ++ [dot, .index ds]) :=
            R.bare 8 _ _ (by simp [lvl]) (Body.indexPos acc Tacc ds hacc hn)
          obtain ⟨T'', hT'', hR''⟩ := ih.pIndexLoop _ _ e r h _ hnode
          refine ⟨dot :: .index ds :: T'', by rw [hT'']; simp [dot], ?_⟩
          have : Tacc ++ dot :: .index ds :: T'' = (Tacc ++ [dot, .index ds]) ++ T'' := by simp
          rw [this]; exact hR''
        next => cases h
      next => cases h
    next =>
      cases h
      exact ⟨[], by simp, by simpa using hacc⟩
  next =>
    cases h
    exact ⟨[], by simp, by simpa using hacc⟩

theorem step_pTerm (ih : Sound o f) : ∀ ts e r, Reval.pTerm o (f + 1) ts = .ok e r → ∃ T, ts = T ++ r ∧ R o 9 e T := by
  intro ts e r h
  simp only [Reval.pTerm] at h
  split at h
  next => cases h
  next k r0 =>
    split at h
    next r1 =>
      split at h
      next op hop =>
        split at h
        next e1 r2 he =>
          split at h
          next r3 =>
            cases h
            obtain ⟨T, hT, hR⟩ := ih.pIf _ _ _ he
            have hl : lvl (.un op e1) = 9 := by
              cases op <;> first | rfl | exact absurd hop (funcOfKw_ne k).1 | exact absurd hop (funcOfKw_ne k).2
            exact ⟨.kw k :: lp :: (T ++ [rp]), by rw [hT]; simp [lp, rp], R.bare 9 _ _ (by omega) (Body.func k op e1 T hop hR)⟩
          next => cases h
        next hne => exact (hne _ _ h).elim
      next hnone =>
        split at h
        next hk =>
          cases h; subst hk
          exact ⟨[.kw ['t', 'r', 'u', 'e']], by simp, R.bare 9 _ _ (by simp [lvl]) Body.litTrue⟩
        next =>
          split at h
          next hk =>
            cases h; subst hk
            exact ⟨[.kw ['f', 'a', 'l', 's', 'e']], by simp, R.bare 9 _ _ (by simp [lvl]) Body.litFalse⟩
          next => cases h
    next =>
      split at h
      next hk =>
        cases h; subst hk
        exact ⟨[.kw ['n', 'o', 'n', 'e']], by simp, R.bare 9 _ _ (by simp [lvl]) Body.litNone⟩
      next =>
        split at h
        next hk =>
          cases h; subst hk
          exact ⟨[.kw ['t', 'r', 'u', 'e']], by simp, R.bare 9 _ _ (by simp [lvl]) Body.litTrue⟩
        next =>
          split at h
          next hk =>
            cases h; subst hk
            exact ⟨[.kw ['f', 'a', 'l', 's', 'e']], by simp, R.bare 9 _ _ (by simp [lvl]) Body.litFalse⟩
          next => cases h
  next x r0 =>
    split at h
    next r1 =>
      split at h
      next e1 r2 he =>
        split at h
        next r3 =>
          cases h
          obtain ⟨T, hT, hR⟩ := ih.pIf _ _ _ he
          exact ⟨.ident x :: lp :: (T ++ [rp]), by rw [hT]; simp [lp, rp], R.bare 9 _ _ (by simp [lvl]) (Body.call x e1 T hR)⟩
        next => cases h
      next hne => exact (hne _ _ h).elim
    next =>
      cases h
      exact ⟨[.ident x], by simp, R.bare 9 _ _ (by simp [lvl]) (Body.ref x)⟩
  next s r0 =>
    split at h
    next hs =>
      subst hs
      split at h
      next x r1 =>
        cases h
        exact ⟨[colon, .ident x], by simp [colon], R.bare 9 _ _ (by simp [lvl]) (Body.sym x)⟩
      next => cases h
    next =>
      split at h
      next hs =>
        subst hs
        split at h
        next e1 r1 he =>
          split at h
          next r2 =>
            cases h
            obtain ⟨T, hT, hR⟩ := ih.pIf _ _ _ he
            exact ⟨lp :: (T ++ [rp]), by rw [hT]; simp [lp, rp], R.paren 9 _ T hR⟩
          next => cases h
        next hne => exact (hne _ _ h).elim
      next =>
        split at h
        next hs =>
          subst hs
          split at h
          next xs r1 hx =>
            cases h
            obtain ⟨T, hT, hR⟩ := ih.pVecItems _ _ _ hx
            exact ⟨.p ['['] :: T, by rw [hT]; simp, R.bare 9 _ _ (by simp [lvl]) (Body.vec xs T hR)⟩
          next => cases h
          next => cases h
          next => cases h
        next =>
          split at h
          next hs =>
            subst hs
            split at h
            next kvs r1 hx =>
              cases h
              obtain ⟨T, hT, hR⟩ := ih.pMapItems _ _ _ hx
              exact ⟨.p ['{'] :: T, by rw [hT]; simp, R.bare 9 _ _ (by simp [lvl]) (Body.map kvs T hR)⟩
            next => cases h
            next => cases h
            next => cases h
          next => cases h
  next t r0 hkw hid hp =>
    split at h
    next v x hv =>
      cases h
      have ht : IsLitTok t := by
        cases t <;> first | trivial | (simp [Lit.ofTok] at hv) | exact absurd rfl (hkw _ _) | exact absurd rfl (hid _ _) | exact absurd rfl (hp _ _)
      exact ⟨[t], by simp, R.bare 9 _ _ (by simp [lvl]) (Body.litTok t v x ht hv)⟩
    next => cases h
    next => cases h
    next => cases h

theorem step_pVecItems (ih : Sound o f) : ∀ ts xs r, Reval.pVecItems o (f + 1) ts = .ok xs r → ∃ T, ts = T ++ r ∧ RList o xs T := by
  intro ts xs r h
  simp only [Reval.pVecItems] at h
  split at h
  next r0 =>
    cases h
    exact ⟨[.p [']']], by simp, RList.nil⟩
  next =>
    split at h
    next e r0 he =>
      obtain ⟨T, hT, hR⟩ := ih.pIf _ _ _ he
      split at h
      next r1 =>
        split at h
        next es r2 hes =>
          cases h
          obtain ⟨Ts, hTs, hRs⟩ := ih.pVecItems _ _ _ hes
          exact ⟨T ++ comma :: Ts, by rw [hT, hTs]; simp [comma], RList.cons e es T Ts hR hRs⟩
        next hne => exact (hne _ _ h).elim
      next r1 =>
        cases h
        exact ⟨T ++ [.p [']']], by rw [hT]; simp, RList.last e T hR⟩
      next => cases h
    next => cases h
    next => cases h
    next => cases h

theorem step_pMapItems (ih : Sound o f) : ∀ ts kvs r, Reval.pMapItems o (f + 1) ts = .ok kvs r → ∃ T, ts = T ++ r ∧ RMap o kvs T := by
  intro ts kvs r h
  simp only [Reval.pMapItems] at h
  split at h
  next r0 =>
    cases h
    exact ⟨[.p ['}']], by simp, RMap.nil⟩
  next k r0 =>
    split at h
    next e r1 he =>
      obtain ⟨T, hT, hR⟩ := ih.pIf _ _ _ he
      split at h
      next r2 =>
        split at h
        next es r3 hes =>
          cases h
          obtain ⟨Ts, hTs, hRs⟩ := ih.pMapItems _ _ _ hes
          exact ⟨.ident k :: colon :: (T ++ comma :: Ts), by rw [hT, hTs]; simp [comma, colon], RMap.cons k e es T Ts hR hRs⟩
        next hne => exact (hne _ _ h).elim
      next r2 =>
        cases h
        exact ⟨.ident k :: colon :: (T ++ [.p ['}']]), by rw [hT]; simp [colon], RMap.last k e T hR⟩
      next => cases h
    next => cases h
    next => cases h
    next => cases h
  next => cases h

/-- every accepted prefix is a rendering: by induction on the fuel -/
theorem sound_all (o : Oracle) : ∀ f, Sound o f
  | 0 => sound_zero o
  | f + 1 =>
    have ih := sound_all o f
    { pIf := step_pIf ih, pBin := step_pBin ih, pBinLoop := step_pBinLoop ih, pContains := step_pContains ih,
      pContainsTail := step_pContainsTail ih, pUnary := step_pUnary ih, pIndex := step_pIndex ih,
      pIndexLoop := step_pIndexLoop ih, pTerm := step_pTerm ih, pVecItems := step_pVecItems ih,
      pMapItems := step_pMapItems ih }

/-- **whatever the parser accepts is derived by the table grammar**, at any fuel: if `pIf` returns `e` having consumed
    all of `T`, then `T` renders `e` under the precedence table -/
theorem parse_sound {o : Oracle} {f : Nat} {T : List Tok} {e : Expr} (h : Reval.pIf o f T = .ok e []) : R o 0 e T := by
  obtain ⟨T', hT, hR⟩ := (sound_all o f).pIf T e [] h
  simp at hT; subst hT; exact hR

end
end Reval.G
