/-
  Lemmas/SerRange.lean — what `ValueSerializer` produces is representable (`Value.inRange`): the integers of the serde
  data model are i8 … u128 and only those within i128 become a `Value::Int`; bytes are bytes.  With
  `Lemmas/InRange.lean` this gives the same for every outcome of `RuleSet::evaluate(&T)`.
-/
import RevalModel.Lemmas.InRange
import RevalModel.Impl.Ser

namespace Reval

mutual
/-- byte strings hold bytes (the only numbers of the data model that the Lean type does not bound) -/
def SerVal.bytesOK : SerVal → Bool
  | .bytes bs => bs.all (fun b => decide (b < 256))
  | .some v => v.bytesOK
  | .newtypeStruct _ v => v.bytesOK
  | .newtypeVariant _ _ v => v.bytesOK
  | .seq xs => SerVal.bytesOKList xs
  | .tuple xs => SerVal.bytesOKList xs
  | .tupleStruct _ xs => SerVal.bytesOKList xs
  | .tupleVariant _ _ xs => SerVal.bytesOKList xs
  | .map kvs => SerVal.bytesOKEntries kvs
  | .struct _ fs => SerVal.bytesOKFields fs
  | .structVariant _ _ fs => SerVal.bytesOKFields fs
  | _ => true
def SerVal.bytesOKList : List SerVal → Bool
  | [] => true
  | x :: xs => x.bytesOK && SerVal.bytesOKList xs
def SerVal.bytesOKEntries : List (SerVal × SerVal) → Bool
  | [] => true
  | (_, v) :: r => v.bytesOK && SerVal.bytesOKEntries r
def SerVal.bytesOKFields : List (Str × SerVal) → Bool
  | [] => true
  | (_, v) :: r => v.bytesOK && SerVal.bytesOKFields r
end

theorem insertSorted_inRange {k : Str} {v : Value} : ∀ {m : List (Str × Value)},
    v.inRange = true → Value.inRangeFields m = true → Value.inRangeFields (insertSorted k v m) = true
  | [], hv, _ => by simp [insertSorted, Value.inRangeFields, hv]
  | (k', v') :: rest, hv, hm => by
    simp only [Value.inRangeFields, Bool.and_eq_true] at hm
    simp only [insertSorted]
    split
    · simp [Value.inRangeFields, hv, hm.2]
    · split
      · simp [Value.inRangeFields, hv, hm.1, hm.2]
      · simp [Value.inRangeFields, hm.1, insertSorted_inRange hv hm.2]

theorem bytes_inRange : ∀ (bs : List Nat), bs.all (fun b => decide (b < 256)) = true →
    Value.inRangeList (bs.map (fun (b : Nat) => Value.int (Int.ofNat b))) = true
  | [], _ => by simp [Value.inRangeList]
  | b :: bs, h => by
    simp only [List.all_cons, Bool.and_eq_true, decide_eq_true_eq] at h
    simp only [List.map_cons, Value.inRangeList, Bool.and_eq_true]
    refine ⟨?_, bytes_inRange bs h.2⟩
    simp only [Value.inRange, Int.ofNat_eq_natCast]; rw [I128.inRange_iff]; have := h.1; omega

theorem serialize_inRange_all :
    (∀ v x, v.bytesOK = true → Ser.serialize v = .ok x → x.inRange = true) ∧
    (∀ fs acc m, SerVal.bytesOKFields fs = true → Value.inRangeFields acc = true →
        Ser.serializeFields fs acc = .ok m → Value.inRangeFields m = true) ∧
    (∀ kvs acc m, SerVal.bytesOKEntries kvs = true → Value.inRangeFields acc = true →
        Ser.serializeEntries kvs acc = .ok m → Value.inRangeFields m = true) ∧
    (∀ xs vs, SerVal.bytesOKList xs = true → Ser.serializeList xs = .ok vs → Value.inRangeList vs = true) := by
  apply Ser.serialize.mutual_induct
    (motive_1 := fun v => ∀ x, v.bytesOK = true → Ser.serialize v = .ok x → x.inRange = true)
    (motive_4 := fun xs => ∀ vs, SerVal.bytesOKList xs = true → Ser.serializeList xs = .ok vs → Value.inRangeList vs = true)
    (motive_3 := fun kvs acc => ∀ m, SerVal.bytesOKEntries kvs = true → Value.inRangeFields acc = true →
        Ser.serializeEntries kvs acc = .ok m → Value.inRangeFields m = true)
    (motive_2 := fun fs acc => ∀ m, SerVal.bytesOKFields fs = true → Value.inRangeFields acc = true →
        Ser.serializeFields fs acc = .ok m → Value.inRangeFields m = true)
  all_goals (intros; simp only [Ser.serialize, Ser.serializeList, Ser.serializeEntries, Ser.serializeFields] at *)
  all_goals first
    | (simp_all [Value.inRange, Value.inRangeList, Value.inRangeFields, SerVal.bytesOK, SerVal.bytesOKList, SerVal.bytesOKEntries, SerVal.bytesOKFields]; done)
    | skip
  case case8 =>
    rename_i bs x hb h
    simp only [Res.ok.injEq] at h; subst h
    simp only [Value.inRange]
    exact bytes_inRange bs (by simpa [SerVal.bytesOK] using hb)
  all_goals (try simp only [Res.map] at *)
  all_goals (rename_i h; first
    | (simp only [Res.ok.injEq] at h; subst h;
       simp_all [Value.inRange, Value.inRangeList, Value.inRangeFields, SerVal.bytesOK, SerVal.bytesOKList,
         SerVal.bytesOKEntries, SerVal.bytesOKFields, bytes_inRange]; done)
    | (split at h <;> (try (simp only [Res.ok.injEq] at h; subst h)) <;>
       simp_all [Value.inRange, Value.inRangeList, Value.inRangeFields, SerVal.bytesOK, SerVal.bytesOKList,
         SerVal.bytesOKEntries, SerVal.bytesOKFields, insertSorted_inRange]; done)
    | (split at h <;> (try split at h) <;> (try (simp only [Res.ok.injEq] at h; subst h)) <;>
       simp_all [Value.inRange, Value.inRangeList, Value.inRangeFields, SerVal.bytesOK, SerVal.bytesOKList,
         SerVal.bytesOKEntries, SerVal.bytesOKFields, insertSorted_inRange]; done)
    )

theorem serialize_inRange {v : SerVal} {x : Value} (hb : v.bytesOK = true) (h : Ser.serialize v = .ok x) :
    x.inRange = true := serialize_inRange_all.1 v x hb h


/-- `RuleSet::evaluate(&T)`: every outcome value is representable, for every serializable input -/
theorem evaluate_inRange {env : Env} (he : env.InRange) (rules : List Expr) (input : SerVal)
    (hb : input.bytesOK = true) (hl : ∀ e ∈ rules, e.litsInRange = true)
    {out : List (Res Value) × St × List Event} (h : evaluate env rules input = .ok out) :
    ∀ r ∈ out.1, ∀ v, r = .ok v → v.inRange = true := by
  unfold evaluate at h
  split at h
  · rename_i facts hf
    injection h with h; subst h
    have hfr := serialize_inRange hb hf
    exact evalRules_inRange (env := { env with facts := facts })
      ⟨hfr, he.symbols, he.fns, he.oracle⟩ rules 0 St.init hl St.init_inRange
  all_goals simp at h

end Reval
