/-
  Lemmas/Lazy.lean — evaluation order: the call sites reached are a subsequence of the static
  left-to-right post-order; every invocation belongs to a reached call node.
-/
import RevalModel.Spec.Denote

namespace Reval

@[simp] theorem reached_append (a b : List Event) : reached (a ++ b) = reached a ++ reached b := by
  induction a with
  | nil => rfl
  | cons e es ih => cases e <;> simp [reached, ih]

@[simp] theorem reachedCalls_append (a b : List Event) : reachedCalls (a ++ b) = reachedCalls a ++ reachedCalls b := by
  induction a with
  | nil => rfl
  | cons e es ih => cases e <;> simp [reachedCalls, ih]

@[simp] theorem invokedCalls_append (a b : List Event) : invokedCalls (a ++ b) = invokedCalls a ++ invokedCalls b := by
  induction a with
  | nil => rfl
  | cons e es ih => cases e <;> simp [invokedCalls, ih]

/-- what `callFn` emits: no reach event, and at most the invocation of `(f, arg)` itself -/
theorem callFn_events (env : Env) (f : Str) (a : Value) (st : St) :
    reached (callFn env f a st).2.2 = [] ∧
    ((callFn env f a st).2.2 = [] ∨ invokedCalls (callFn env f a st).2.2 = [(f, a)]) ∧
    reachedCalls (callFn env f a st).2.2 = [] := by
  unfold callFn invokeFn
  split
  · simp [reached, invokedCalls, reachedCalls]
  · split
    · split
      · simp [reached, invokedCalls, reachedCalls]
      · split <;> simp [reached, invokedCalls, reachedCalls]
    · split <;> simp [reached, invokedCalls, reachedCalls]

theorem callFn_reached {env : Env} {f : Str} {a : Value} {st : St} {r : Res Value} {st2 : St} {ev : List Event}
    (h : callFn env f a st = (r, st2, ev)) : reached ev = [] := by
  have := (callFn_events env f a st).1; rw [h] at this; exact this

theorem callFn_invoked {env : Env} {f : Str} {a : Value} {st : St} {r : Res Value} {st2 : St} {ev : List Event}
    (h : callFn env f a st = (r, st2, ev)) : (invokedCalls ev).Sublist [(f, a)] ∧ reachedCalls ev = [] := by
  have h2 := (callFn_events env f a st).2; rw [h] at h2
  refine ⟨?_, h2.2⟩
  rcases h2.1 with h3 | h3
  · subst h3; simp [invokedCalls]
  · simp only [] at h3; rw [h3]; exact List.Sublist.refl _

theorem sublist_app {α} {a b c d : List α} (h1 : a.Sublist c) (h2 : b.Sublist d) : (a ++ b).Sublist (c ++ d) :=
  List.Sublist.append h1 h2

theorem sublist_left {α} {a c : List α} (d : List α) (h1 : a.Sublist c) : a.Sublist (c ++ d) :=
  List.sublist_append_of_sublist_left h1

theorem sublist_right {α} {a d : List α} (c : List α) (h1 : a.Sublist d) : a.Sublist (c ++ d) :=
  List.sublist_append_of_sublist_right h1

/-- the sites reached form a subsequence of the static left-to-right post-order -/
theorem trace_sublist_all (env : Env) :
    (∀ rp e st, (reached (eval env rp e st).2.2).Sublist (sites rp e)) ∧
    (∀ rp i kvs st, (reached (evalMap env rp i kvs st).2.2).Sublist (sitesMap rp i kvs)) ∧
    (∀ rp i es st, (reached (evalList env rp i es st).2.2).Sublist (sitesList rp i es)) := by
  apply eval.mutual_induct env
    (motive_1 := fun rp e st => (reached (eval env rp e st).2.2).Sublist (sites rp e))
    (motive_2 := fun rp i kvs st => (reached (evalMap env rp i kvs st).2.2).Sublist (sitesMap rp i kvs))
    (motive_3 := fun rp i es st => (reached (evalList env rp i es st).2.2).Sublist (sitesList rp i es))
  all_goals (intros; simp only [eval, evalList, evalMap, sites, sitesList, sitesMap])
  all_goals first
    | (simp_all [reached]; done)
    | (have hc := callFn_reached ‹callFn _ _ _ _ = _›; simp_all [reached]; done)
    | (simp_all [reached]; first
        | (apply sublist_app <;> assumption)
        | (apply sublist_left; assumption)
        | (apply sublist_app; assumption; apply sublist_left; assumption)
        | (apply sublist_app; assumption; apply sublist_right; assumption))
    | (split <;> simp_all [reached] <;> first
        | (apply sublist_left; assumption)
        | (apply sublist_app <;> assumption)
        | assumption)

end Reval

namespace Reval

/-- every invocation belongs to a call node that was reached, in the same order -/
theorem invoked_sublist_all (env : Env) :
    (∀ rp e st, (invokedCalls (eval env rp e st).2.2).Sublist (reachedCalls (eval env rp e st).2.2)) ∧
    (∀ rp i kvs st, (invokedCalls (evalMap env rp i kvs st).2.2).Sublist (reachedCalls (evalMap env rp i kvs st).2.2)) ∧
    (∀ rp i es st, (invokedCalls (evalList env rp i es st).2.2).Sublist (reachedCalls (evalList env rp i es st).2.2)) := by
  apply eval.mutual_induct env
    (motive_1 := fun rp e st => (invokedCalls (eval env rp e st).2.2).Sublist (reachedCalls (eval env rp e st).2.2))
    (motive_2 := fun rp i kvs st => (invokedCalls (evalMap env rp i kvs st).2.2).Sublist (reachedCalls (evalMap env rp i kvs st).2.2))
    (motive_3 := fun rp i es st => (invokedCalls (evalList env rp i es st).2.2).Sublist (reachedCalls (evalList env rp i es st).2.2))
  all_goals (intros; simp only [eval, evalList, evalMap])
  all_goals first
    | (simp_all [invokedCalls, reachedCalls]; done)
    | (have hc := callFn_invoked ‹callFn _ _ _ _ = _›; simp_all [invokedCalls, reachedCalls]
       apply sublist_app; assumption; exact hc.1)
    | (simp_all [invokedCalls, reachedCalls]; apply sublist_app <;> assumption)
    | (split <;> simp_all [invokedCalls, reachedCalls] <;> (apply sublist_app <;> assumption))

theorem trace_sublist (env : Env) (rp : List Nat) (e : Expr) (st : St) :
    (reached (eval env rp e st).2.2).Sublist (sites rp e) := (trace_sublist_all env).1 rp e st

theorem invoked_sublist_reached (env : Env) (rp : List Nat) (e : Expr) (st : St) :
    (invokedCalls (eval env rp e st).2.2).Sublist (reachedCalls (eval env rp e st).2.2) :=
  (invoked_sublist_all env).1 rp e st

/-! ### the static order has no repetition: every call site occurs once -/

theorem suffix_step {x rp : List Nat} {k : Nat} (h : ∃ p, x = p ++ k :: rp) : ∃ p, x = p ++ rp := by
  obtain ⟨p, rfl⟩ := h; exact ⟨p ++ [k], by simp⟩

theorem suffix_step' {x rp : List Nat} {i : Nat} (h : ∃ p j, i ≤ j ∧ x = p ++ j :: rp) : ∃ p, x = p ++ rp := by
  obtain ⟨p, j, _, rfl⟩ := h; exact ⟨p ++ [j], by simp⟩

theorem sites_suffix_all :
    (∀ rp e x, x ∈ sites rp e → ∃ p, x = p ++ rp) ∧
    (∀ rp i kvs x, x ∈ sitesMap rp i kvs → ∃ p j, i ≤ j ∧ x = p ++ j :: rp) ∧
    (∀ rp i es x, x ∈ sitesList rp i es → ∃ p j, i ≤ j ∧ x = p ++ j :: rp) := by
  apply sites.mutual_induct
    (motive_1 := fun rp e => ∀ x, x ∈ sites rp e → ∃ p, x = p ++ rp)
    (motive_2 := fun rp i kvs => ∀ x, x ∈ sitesMap rp i kvs → ∃ p j, i ≤ j ∧ x = p ++ j :: rp)
    (motive_3 := fun rp i es => ∀ x, x ∈ sitesList rp i es → ∃ p j, i ≤ j ∧ x = p ++ j :: rp)
  all_goals (intros; simp only [sites, sitesList, sitesMap, List.mem_append, List.mem_singleton, List.not_mem_nil] at *)
  all_goals first
    | (contradiction)
    | (apply suffix_step; solve_by_elim)
    | (apply suffix_step'; solve_by_elim)
    | skip
  all_goals first
    | (rename_i ih x hx
       rcases hx with h | h
       · exact suffix_step (ih _ h)
       · subst h; exact ⟨[], rfl⟩)
    | (rename_i ih3 ih2 ih1 x hx
       rcases hx with h | h | h
       · exact suffix_step (ih3 _ h)
       · exact suffix_step (ih2 _ h)
       · exact suffix_step (ih1 _ h))
    | (rename_i ih2 ih1 x hx
       rcases hx with h | h
       · exact suffix_step (ih2 _ h)
       · exact suffix_step (ih1 _ h))
    | (rename_i ih2 ih1 x hx
       rcases hx with h | h
       · obtain ⟨p, rfl⟩ := ih2 _ h; exact ⟨p, _, Nat.le_refl _, rfl⟩
       · obtain ⟨p, j, hj, rfl⟩ := ih1 _ h; exact ⟨p, j, by omega, rfl⟩)

theorem sites_suffix {rp : List Nat} {e : Expr} {x : List Nat} (h : x ∈ sites rp e) : ∃ p, x = p ++ rp :=
  sites_suffix_all.1 rp e x h

/-- two lists with different heads in front of the same tail are different, whatever precedes them -/
theorem app_cons_ne {p q rp : List Nat} {i j : Nat} (hij : i ≠ j) : p ++ i :: rp ≠ q ++ j :: rp := by
  intro h
  have hl : (i :: rp).length = (j :: rp).length := by simp
  have := (List.append_inj' h hl).2
  simp at this; exact hij this

theorem app_cons_ne_self {p rp : List Nat} {i : Nat} : p ++ i :: rp ≠ rp := by
  intro h
  have := congrArg List.length h
  simp at this; omega

theorem nodup_app {A B : List (List Nat)} (hA : A.Nodup) (hB : B.Nodup) (hd : ∀ a ∈ A, ∀ b ∈ B, a ≠ b) :
    (A ++ B).Nodup := List.nodup_append.2 ⟨hA, hB, hd⟩

theorem disj_sites {rp : List Nat} {i j : Nat} (hij : i ≠ j) (e1 e2 : Expr) :
    ∀ a ∈ sites (i :: rp) e1, ∀ b ∈ sites (j :: rp) e2, a ≠ b := by
  intro a ha b hb
  obtain ⟨p, rfl⟩ := sites_suffix ha
  obtain ⟨q, rfl⟩ := sites_suffix hb
  exact app_cons_ne hij

theorem disj_sites_list {rp : List Nat} {i : Nat} (e : Expr) (es : List Expr) :
    ∀ a ∈ sites (i :: rp) e, ∀ b ∈ sitesList rp (i + 1) es, a ≠ b := by
  intro a ha b hb
  obtain ⟨p, rfl⟩ := sites_suffix ha
  obtain ⟨q, j, hj, rfl⟩ := sites_suffix_all.2.2 rp (i + 1) es b hb
  exact app_cons_ne (by omega)

theorem disj_sites_map {rp : List Nat} {i : Nat} (e : Expr) (es : List (Str × Expr)) :
    ∀ a ∈ sites (i :: rp) e, ∀ b ∈ sitesMap rp (i + 1) es, a ≠ b := by
  intro a ha b hb
  obtain ⟨p, rfl⟩ := sites_suffix ha
  obtain ⟨q, j, hj, rfl⟩ := sites_suffix_all.2.1 rp (i + 1) es b hb
  exact app_cons_ne (by omega)

theorem sites_nodup_all :
    (∀ rp e, (sites rp e).Nodup) ∧
    (∀ rp i kvs, (sitesMap rp i kvs).Nodup) ∧
    (∀ rp i es, (sitesList rp i es).Nodup) := by
  apply sites.mutual_induct
    (motive_1 := fun rp e => (sites rp e).Nodup)
    (motive_2 := fun rp i kvs => (sitesMap rp i kvs).Nodup)
    (motive_3 := fun rp i es => (sitesList rp i es).Nodup)
  all_goals (intros; simp only [sites, sitesList, sitesMap])
  all_goals first
    | (simp; done)
    | assumption
    | (apply nodup_app <;> first
        | assumption
        | (exact disj_sites (by decide) _ _)
        | (exact disj_sites_list _ _)
        | (exact disj_sites_map _ _)
        | (simp; done)
        | (intro a ha b hb; simp at hb; subst hb; obtain ⟨p, rfl⟩ := sites_suffix ha; exact app_cons_ne_self)
        | (apply nodup_app <;> first | assumption | (exact disj_sites (by decide) _ _))
        | (intro a ha b hb
           rcases List.mem_append.1 hb with h | h
           · exact disj_sites (by decide) _ _ a ha b h
           · exact disj_sites (by decide) _ _ a ha b h))

theorem sites_nodup (rp : List Nat) (e : Expr) : (sites rp e).Nodup := sites_nodup_all.1 rp e

/-- each call site is reached at most once during one evaluation -/
theorem reached_nodup (env : Env) (rp : List Nat) (e : Expr) (st : St) : (reached (eval env rp e st).2.2).Nodup :=
  List.Sublist.nodup (trace_sublist env rp e st) (sites_nodup rp e)

end Reval
