/-
  Lemmas/Equality.lean — what `==` (the derived `PartialEq` of `Value`) is: an equivalence on values without a Float
  inside, and plain identity on values with neither Float nor Decimal inside.
-/
import RevalModel.Impl.Eval
import RevalModel.Lemmas.DecExact

namespace Reval

mutual
/-- no Float anywhere inside (IEEE equality is the one place where `==` is not reflexive) -/
def Value.noFloat : Value → Bool
  | .float _ => false
  | .vec xs => Value.noFloatList xs
  | .map kvs => Value.noFloatFields kvs
  | _ => true
def Value.noFloatList : List Value → Bool
  | [] => true
  | v :: vs => Value.noFloat v && Value.noFloatList vs
def Value.noFloatFields : List (Str × Value) → Bool
  | [] => true
  | (_, v) :: kvs => Value.noFloat v && Value.noFloatFields kvs
end

mutual
/-- neither Float nor Decimal anywhere inside: the types whose `==` is representation identity -/
def Value.exact : Value → Bool
  | .float _ => false
  | .dec _ => false
  | .vec xs => Value.exactList xs
  | .map kvs => Value.exactFields kvs
  | _ => true
def Value.exactList : List Value → Bool
  | [] => true
  | v :: vs => Value.exact v && Value.exactList vs
def Value.exactFields : List (Str × Value) → Bool
  | [] => true
  | (_, v) :: kvs => Value.exact v && Value.exactFields kvs
end

theorem Dec.eqNum_refl (a : Dec) : Dec.eqNum a a = true := by
  simp [Dec.eqNum, Dec.cmpNum]

theorem Dec.eqNum_symm (a b : Dec) : Dec.eqNum a b = Dec.eqNum b a := by
  have h1 := Dec.eqNum_iff_cross a b
  have h2 := Dec.eqNum_iff_cross b a
  cases h : Dec.eqNum a b <;> cases h' : Dec.eqNum b a <;> simp_all

mutual
theorem peq_refl (a : Value) (h : a.noFloat = true) : Value.peq a a = true := by
  cases a with
  | float f => simp [Value.noFloat] at h
  | dec d => simp [Value.peq, Dec.eqNum_refl]
  | vec xs => simp only [Value.peq]; exact peqList_refl xs (by simpa [Value.noFloat] using h)
  | map kvs => simp only [Value.peq]; exact peqFields_refl kvs (by simpa [Value.noFloat] using h)
  | _ => simp [Value.peq]
theorem peqList_refl (xs : List Value) (h : Value.noFloatList xs = true) : Value.peqList xs xs = true := by
  cases xs with
  | nil => simp [Value.peqList]
  | cons v vs =>
    simp only [Value.noFloatList, Bool.and_eq_true] at h
    simp [Value.peqList, peq_refl v h.1, peqList_refl vs h.2]
theorem peqFields_refl (kvs : List (Str × Value)) (h : Value.noFloatFields kvs = true) : Value.peqFields kvs kvs = true := by
  cases kvs with
  | nil => simp [Value.peqFields]
  | cons kv rest =>
    obtain ⟨k, v⟩ := kv
    simp only [Value.noFloatFields, Bool.and_eq_true] at h
    simp [Value.peqFields, peq_refl v h.1, peqFields_refl rest h.2]
end


mutual
theorem peq_symm (a b : Value) (ha : a.noFloat = true) : Value.peq a b = Value.peq b a := by
  cases a with
  | float f => simp [Value.noFloat] at ha
  | str x => cases b <;> simp only [Value.peq]; exact BEq.comm
  | int x => cases b <;> simp only [Value.peq]; exact BEq.comm
  | bool x => cases b <;> simp only [Value.peq]; exact BEq.comm
  | dateTime x => cases b <;> simp only [Value.peq]; exact BEq.comm
  | duration x => cases b <;> simp only [Value.peq]; exact BEq.comm
  | dec x => cases b <;> simp only [Value.peq]; exact Dec.eqNum_symm _ _
  | none => cases b <;> simp only [Value.peq]
  | vec xs => cases b <;> simp only [Value.peq]; exact peqList_symm xs _ (by simpa [Value.noFloat] using ha)
  | map kvs => cases b <;> simp only [Value.peq]; exact peqFields_symm kvs _ (by simpa [Value.noFloat] using ha)
theorem peqList_symm (xs ys : List Value) (h : Value.noFloatList xs = true) : Value.peqList xs ys = Value.peqList ys xs := by
  cases xs with
  | nil => cases ys <;> simp [Value.peqList]
  | cons v vs =>
    cases ys with
    | nil => simp [Value.peqList]
    | cons w ws =>
      simp only [Value.noFloatList, Bool.and_eq_true] at h
      simp only [Value.peqList, peq_symm v w h.1, peqList_symm vs ws h.2]
theorem peqFields_symm (xs ys : List (Str × Value)) (h : Value.noFloatFields xs = true) : Value.peqFields xs ys = Value.peqFields ys xs := by
  cases xs with
  | nil => cases ys with
    | nil => rfl
    | cons kw _ => obtain ⟨k, w⟩ := kw; simp [Value.peqFields]
  | cons kv vs =>
    obtain ⟨k, v⟩ := kv
    cases ys with
    | nil => simp [Value.peqFields]
    | cons lw ws =>
      obtain ⟨l, w⟩ := lw
      simp only [Value.noFloatFields, Bool.and_eq_true] at h
      simp only [Value.peqFields, peq_symm v w h.1, peqFields_symm vs ws h.2]
      rw [show (k == l) = (l == k) from BEq.comm]
end

mutual
theorem peq_iff_eq (a b : Value) (ha : a.exact = true) (hb : b.exact = true) : Value.peq a b = true ↔ a = b := by
  cases a with
  | float f => simp [Value.exact] at ha
  | dec d => simp [Value.exact] at ha
  | str x => cases b <;> simp [Value.peq]
  | int x => cases b <;> simp [Value.peq]
  | bool x => cases b <;> simp [Value.peq]
  | dateTime x => cases b <;> simp [Value.peq]
  | duration x => cases b <;> simp [Value.peq]
  | none => cases b <;> simp [Value.peq]
  | vec xs =>
    cases b with
    | vec ys =>
      simp only [Value.peq, Value.vec.injEq]
      exact peqList_iff_eq xs ys (by simpa [Value.exact] using ha) (by simpa [Value.exact] using hb)
    | _ => simp [Value.peq]
  | map kvs =>
    cases b with
    | map lws =>
      simp only [Value.peq, Value.map.injEq]
      exact peqFields_iff_eq kvs lws (by simpa [Value.exact] using ha) (by simpa [Value.exact] using hb)
    | _ => simp [Value.peq]
theorem peqList_iff_eq (xs ys : List Value) (hx : Value.exactList xs = true) (hy : Value.exactList ys = true) :
    Value.peqList xs ys = true ↔ xs = ys := by
  cases xs with
  | nil => cases ys <;> simp [Value.peqList]
  | cons v vs =>
    cases ys with
    | nil => simp [Value.peqList]
    | cons w ws =>
      simp only [Value.exactList, Bool.and_eq_true] at hx hy
      simp only [Value.peqList, Bool.and_eq_true, List.cons.injEq, peq_iff_eq v w hx.1 hy.1, peqList_iff_eq vs ws hx.2 hy.2]
theorem peqFields_iff_eq (xs ys : List (Str × Value)) (hx : Value.exactFields xs = true) (hy : Value.exactFields ys = true) :
    Value.peqFields xs ys = true ↔ xs = ys := by
  cases xs with
  | nil => cases ys with
    | nil => simp [Value.peqFields]
    | cons kw _ => obtain ⟨k, w⟩ := kw; simp [Value.peqFields]
  | cons kv vs =>
    obtain ⟨k, v⟩ := kv
    cases ys with
    | nil => simp [Value.peqFields]
    | cons lw ws =>
      obtain ⟨l, w⟩ := lw
      simp only [Value.exactFields, Bool.and_eq_true] at hx hy
      simp only [Value.peqFields, Bool.and_eq_true, List.cons.injEq, Prod.mk.injEq, beq_iff_eq, peq_iff_eq v w hx.1 hy.1,
        peqFields_iff_eq vs ws hx.2 hy.2, and_assoc]
end

end Reval
