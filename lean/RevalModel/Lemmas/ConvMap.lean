/-
  Lemmas/ConvMap.lean — `From<BTreeMap<String, V>> for Value` keeps the entries of a map as they are (keys unchanged,
  in key order).
-/
import RevalModel.Impl.Convert
import RevalModel.Lemmas.SortedMap

namespace Reval
open Conv

theorem keysSorted_map {α β} (f : α → β) (kvs : List (Str × α)) (h : KeysSorted kvs) :
    KeysSorted (kvs.map (fun kv => (kv.1, f kv.2))) := by
  unfold KeysSorted at *
  rw [List.pairwise_map]
  exact h

/-- `From<BTreeMap<String, V>>`: the entries of a map (keys sorted and distinct) become the entries of the Value, each
    key unchanged -/
theorem fromMap_sorted {α} (into : α → Value) (kvs : List (Str × α)) (h : KeysSorted kvs) :
    fromMap into kvs = .map (kvs.map (fun kv => (kv.1, into kv.2))) := by
  unfold fromMap
  congr 1
  have key : ∀ (m : List (Str × α)) (acc : List (Str × Value)),
      m.foldl (fun a (kv : Str × α) => insertSorted kv.1 (into kv.2) a) acc =
      (m.map (fun kv => (kv.1, into kv.2))).foldl (fun a kv => insertSorted kv.1 kv.2 a) acc := by
    intro m; induction m with
    | nil => intro acc; rfl
    | cons x xs ih => intro acc; simp only [List.foldl_cons, List.map_cons]; exact ih _
  have h2 := foldl_insert_sorted (kvs.map (fun kv => (kv.1, into kv.2))) [] (by simpa using keysSorted_map into kvs h)
  simp only [List.nil_append] at h2
  rw [← h2, ← key]

end Reval
