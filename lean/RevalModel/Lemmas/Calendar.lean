/-
  Lemmas/Calendar.lean — `civil` (the model of chrono's year / month / day of a `DateTime<Utc>`) is the inverse of
  the day count of the proleptic Gregorian calendar, for every date (no bound on the year); the day count is
  anchored at the epoch and consecutive, so it is the calendar.
-/
import RevalModel.Spec.Calendar

namespace Reval
namespace Time

theorem eraA (era doe : Int) (h0 : 0 ≤ doe) (h1 : doe ≤ 146096) :
    (era * 146097 + doe) / 146097 = era ∧ (era * 146097 + doe) - ((era * 146097 + doe) / 146097) * 146097 = doe := by
  omega

theorem civil_eq (days era doe yoe doy mp : Int) (h1 : days + 719468 = era * 146097 + doe)
    (h0 : 0 ≤ doe) (h2 : doe ≤ 146096)
    (hyoe : (doe - doe / 1460 + doe / 36524 - doe / 146096) / 365 = yoe)
    (hdoy : doe - (365 * yoe + yoe / 4 - yoe / 100) = doy) (hmp : (5 * doy + 2) / 153 = mp) :
    civil days = (if (if mp < 10 then mp + 3 else mp - 9) ≤ 2 then yoe + era * 400 + 1 else yoe + era * 400,
                  (if mp < 10 then mp + 3 else mp - 9), doy - (153 * mp + 2) / 5 + 1) := by
  unfold civil
  dsimp only
  rw [h1, (eraA era doe h0 h2).2, (eraA era doe h0 h2).1, hyoe, hdoy, hmp]

/-- the month and the day of the month are recovered from the day of the (March-based) year -/
theorem mdC (mp0 d0 : Int) (hmp : 0 ≤ mp0 ∧ mp0 ≤ 11) (hd : 1 ≤ d0)
    (hlen : d0 ≤ (if mp0 = 11 then 29 else if mp0 = 1 ∨ mp0 = 3 ∨ mp0 = 6 ∨ mp0 = 8 then 30 else 31)) :
    (5 * ((153 * mp0 + 2) / 5 + d0 - 1) + 2) / 153 = mp0 ∧
    ((153 * mp0 + 2) / 5 + d0 - 1) - (153 * mp0 + 2) / 5 + 1 = d0 := by
  have : mp0 = 0 ∨ mp0 = 1 ∨ mp0 = 2 ∨ mp0 = 3 ∨ mp0 = 4 ∨ mp0 = 5 ∨ mp0 = 6 ∨ mp0 = 7 ∨ mp0 = 8 ∨ mp0 = 9 ∨
      mp0 = 10 ∨ mp0 = 11 := by omega
  rcases this with h | h | h | h | h | h | h | h | h | h | h | h <;> subst h <;> simp at hlen <;> omega

theorem yoeB (yoe doy : Int) (hy : 0 ≤ yoe ∧ yoe ≤ 399) (hd : 0 ≤ doy)
    (hl : doy ≤ 364 ∨ (doy = 365 ∧ (yoe + 1) % 4 = 0 ∧ ((yoe + 1) % 100 ≠ 0 ∨ yoe + 1 = 400))) :
    (yoe * 365 + yoe / 4 - yoe / 100 + doy - (yoe * 365 + yoe / 4 - yoe / 100 + doy) / 1460
      + (yoe * 365 + yoe / 4 - yoe / 100 + doy) / 36524 - (yoe * 365 + yoe / 4 - yoe / 100 + doy) / 146096) / 365 = yoe
    ∧ 0 ≤ yoe * 365 + yoe / 4 - yoe / 100 + doy ∧ yoe * 365 + yoe / 4 - yoe / 100 + doy ≤ 146096 := by
  have hc : yoe / 100 = 0 ∨ yoe / 100 = 1 ∨ yoe / 100 = 2 ∨ yoe / 100 = 3 := by omega
  have hnot : doy = 365 → yoe ≠ 99 ∧ yoe ≠ 199 ∧ yoe ≠ 299 := by
    intro h; rcases hl with h' | ⟨_, _, h' | h'⟩ <;> omega
  have hdoy : doy ≤ 365 := by omega
  generalize hdoe : yoe * 365 + yoe / 4 - yoe / 100 + doy = doe
  rcases hc with h | h | h | h
  · have h1 : doe / 36524 = 0 := by omega
    have h2 : doe / 146096 = 0 := by omega
    rw [h1, h2]; omega
  · have h1 : doe / 36524 = 1 := by omega
    have h2 : doe / 146096 = 0 := by omega
    rw [h1, h2]; omega
  · have h1 : doe / 36524 = 2 := by omega
    have h2 : doe / 146096 = 0 := by omega
    rw [h1, h2]; omega
  · by_cases hlast : yoe = 399 ∧ doy = 365
    · obtain ⟨rfl, rfl⟩ := hlast; subst hdoe; decide
    · have h1 : doe / 36524 = 3 := by omega
      have h2 : doe / 146096 = 0 := by omega
      rw [h1, h2]; omega

theorem civil_daysFromCivil (y m d : Int) (hm : 1 ≤ m ∧ m ≤ 12) (hd : 1 ≤ d ∧ d ≤ lastDay y m) :
    civil (daysFromCivil y m d) = (y, m, d) := by
  -- the parts
  generalize hy' : (if m ≤ 2 then y - 1 else y) = y'
  generalize hmp0 : (if m > 2 then m - 3 else m + 9) = mp0
  have hera : ∃ era yoe, y' = era * 400 + yoe ∧ 0 ≤ yoe ∧ yoe ≤ 399 ∧ y' / 400 = era ∧ y' - y' / 400 * 400 = yoe :=
    ⟨y' / 400, y' - y' / 400 * 400, by omega, by omega, by omega, rfl, rfl⟩
  obtain ⟨era, yoe, hyy, hy0, hy1, hq, hr⟩ := hera
  have hmpr : 0 ≤ mp0 ∧ mp0 ≤ 11 := by subst hmp0; split <;> omega
  have hlen : d ≤ (if mp0 = 11 then 29 else if mp0 = 1 ∨ mp0 = 3 ∨ mp0 = 6 ∨ mp0 = 8 then 30 else 31) := by
    have := hd.2; unfold lastDay at this
    subst hmp0
    split at this
    · rename_i h2; subst h2; simp; split at this <;> omega
    · split at this
      · rename_i h; rcases h with h | h | h | h <;> subst h <;> simp <;> omega
      · have : ¬ ((if m > 2 then m - 3 else m + 9) = 11) := by split <;> omega
        rw [if_neg this]
        split <;> omega
  have hC := mdC mp0 d hmpr hd.1 hlen
  generalize hdoy : (153 * mp0 + 2) / 5 + d - 1 = doy at hC
  -- leap-day condition
  have hdoyr : 0 ≤ doy := by
    subst hdoy
    have : mp0 = 0 ∨ mp0 = 1 ∨ mp0 = 2 ∨ mp0 = 3 ∨ mp0 = 4 ∨ mp0 = 5 ∨ mp0 = 6 ∨ mp0 = 7 ∨ mp0 = 8 ∨ mp0 = 9 ∨
      mp0 = 10 ∨ mp0 = 11 := by omega
    rcases this with h | h | h | h | h | h | h | h | h | h | h | h <;> subst h <;> omega
  have hl : doy ≤ 364 ∨ (doy = 365 ∧ (yoe + 1) % 4 = 0 ∧ ((yoe + 1) % 100 ≠ 0 ∨ yoe + 1 = 400)) := by
    by_cases hfeb29 : m = 2 ∧ d = 29
    · right
      obtain ⟨rfl, rfl⟩ := hfeb29
      have hleap := hd.2; unfold lastDay at hleap; simp at hleap
      have hleap' : isLeap y = true := by
        by_cases h : isLeap y = true
        · exact h
        · simp [h] at hleap
      unfold isLeap at hleap'
      simp at hy' hmp0
      subst hmp0
      simp only [Bool.or_eq_true, Bool.and_eq_true, beq_iff_eq, bne_iff_ne] at hleap'
      refine ⟨by omega, by omega, ?_⟩
      rcases hleap' with ⟨h4, h100⟩ | h400
      · left; omega
      · right; omega
    · left
      subst hdoy
      have : mp0 = 0 ∨ mp0 = 1 ∨ mp0 = 2 ∨ mp0 = 3 ∨ mp0 = 4 ∨ mp0 = 5 ∨ mp0 = 6 ∨ mp0 = 7 ∨ mp0 = 8 ∨ mp0 = 9 ∨
        mp0 = 10 ∨ mp0 = 11 := by omega
      rcases this with h | h | h | h | h | h | h | h | h | h | h | h <;> subst h <;> simp at hlen <;> try omega
  have hB := yoeB yoe doy ⟨hy0, hy1⟩ hdoyr hl
  generalize hdoe : yoe * 365 + yoe / 4 - yoe / 100 + doy = doe at hB
  have hdays : daysFromCivil y m d = era * 146097 + doe - 719468 := by
    unfold daysFromCivil; dsimp only
    have hr' : y' - era * 400 = yoe := by omega
    rw [hy', hmp0, hq, hr', hdoy, hdoe]
  rw [hdays]
  rw [civil_eq (era * 146097 + doe - 719468) era doe yoe doy mp0 (by omega) hB.2.1 hB.2.2 hB.1 (by omega) hC.1]
  rw [hC.2]
  -- month and year back
  have hmback : (if mp0 < 10 then mp0 + 3 else mp0 - 9) = m := by subst hmp0; split <;> split <;> omega
  rw [hmback]
  have hyback : (if m ≤ 2 then yoe + era * 400 + 1 else yoe + era * 400) = y := by
    subst hy'; split <;> (rename_i h; simp only [h, if_true, if_false] at hyy; omega)
  rw [hyback]


/-- `daysFromCivil` counts days consecutively: anchored at the epoch … -/
theorem daysFromCivil_epoch : daysFromCivil 1970 1 1 = 0 := by decide

/-- … the next day of the same month is one more … -/
theorem daysFromCivil_next_day (y m d : Int) : daysFromCivil y m (d + 1) = daysFromCivil y m d + 1 := by
  unfold daysFromCivil; dsimp only; omega

/-- … the first of the next month follows the last day of a month … -/
theorem daysFromCivil_next_month (y m : Int) (hm : 1 ≤ m ∧ m ≤ 11) :
    daysFromCivil y (m + 1) 1 = daysFromCivil y m (lastDay y m) + 1 := by
  have : m = 1 ∨ m = 2 ∨ m = 3 ∨ m = 4 ∨ m = 5 ∨ m = 6 ∨ m = 7 ∨ m = 8 ∨ m = 9 ∨ m = 10 ∨ m = 11 := by omega
  rcases this with h | h | h | h | h | h | h | h | h | h | h <;> subst h
  case inr.inl =>
    -- February → March: the March-based year changes
    unfold daysFromCivil lastDay isLeap
    simp only [Bool.or_eq_true, Bool.and_eq_true, beq_iff_eq, bne_iff_ne]
    split <;> (simp at * <;> omega)
  all_goals (unfold daysFromCivil lastDay; simp; omega)

/-- … and January 1st follows December 31st -/
theorem daysFromCivil_next_year (y : Int) : daysFromCivil (y + 1) 1 1 = daysFromCivil y 12 31 + 1 := by
  unfold daysFromCivil; simp; omega


/-- the time-of-day parts of an instant written as day number, h:mi:s and nanoseconds -/
theorem timeOfDay_parts (days h mi s ns : Int) (hh : 0 ≤ h ∧ h ≤ 23) (hmi : 0 ≤ mi ∧ mi ≤ 59)
    (hs : 0 ≤ s ∧ s ≤ 59) (hns : 0 ≤ ns ∧ ns ≤ 999999999) :
    let t := (days * 86400 + h * 3600 + mi * 60 + s) * nsPerSec + ns
    secsOf t / 86400 = days ∧ hour t = h ∧ minute t = mi ∧ second t = s := by
  intro t
  have hsec : secsOf t = days * 86400 + h * 3600 + mi * 60 + s := by
    unfold secsOf nsPerSec; simp only [t, nsPerSec]; omega
  unfold hour minute second
  rw [hsec]; omega

theorem lastDay_ge (y m : Int) : 28 ≤ lastDay y m ∧ lastDay y m ≤ 31 := by
  unfold lastDay; split <;> (try split) <;> omega

/-- every valid date has a valid next date, whose day number is one more -/
theorem exists_next (y m d : Int) (hv : ValidDate y m d) :
    ∃ y' m' d', ValidDate y' m' d' ∧ daysFromCivil y' m' d' = daysFromCivil y m d + 1 := by
  obtain ⟨hm1, hm2, hd1, hd2⟩ := hv
  by_cases hlast : d < lastDay y m
  · exact ⟨y, m, d + 1, ⟨hm1, hm2, by omega, by omega⟩, daysFromCivil_next_day y m d⟩
  · have hd : d = lastDay y m := by omega
    by_cases hdec : m = 12
    · subst hdec
      have h31 : lastDay y 12 = 31 := by unfold lastDay; simp
      refine ⟨y + 1, 1, 1, ⟨by omega, by omega, by omega, ?_⟩, ?_⟩
      · have := lastDay_ge (y + 1) 1; omega
      · rw [daysFromCivil_next_year, hd, h31]
    · refine ⟨y, m + 1, 1, ⟨by omega, by omega, by omega, ?_⟩, ?_⟩
      · have := lastDay_ge y (m + 1); omega
      · rw [daysFromCivil_next_month y m ⟨hm1, by omega⟩, hd]

/-- … and a valid previous date, whose day number is one less -/
theorem exists_prev (y m d : Int) (hv : ValidDate y m d) :
    ∃ y' m' d', ValidDate y' m' d' ∧ daysFromCivil y' m' d' = daysFromCivil y m d - 1 := by
  obtain ⟨hm1, hm2, hd1, hd2⟩ := hv
  by_cases hfirst : 1 < d
  · refine ⟨y, m, d - 1, ⟨hm1, hm2, by omega, by omega⟩, ?_⟩
    have := daysFromCivil_next_day y m (d - 1)
    rw [show d - 1 + 1 = d by omega] at this; omega
  · have hd : d = 1 := by omega
    subst hd
    by_cases hjan : m = 1
    · subst hjan
      have h31 : lastDay (y - 1) 12 = 31 := by unfold lastDay; simp
      refine ⟨y - 1, 12, 31, ⟨by omega, by omega, by omega, by omega⟩, ?_⟩
      have := daysFromCivil_next_year (y - 1)
      rw [show y - 1 + 1 = y by omega] at this; omega
    · refine ⟨y, m - 1, lastDay y (m - 1), ⟨by omega, by omega, ?_, Int.le_refl _⟩, ?_⟩
      · have := lastDay_ge y (m - 1); omega
      · have := daysFromCivil_next_month y (m - 1) ⟨by omega, by omega⟩
        rw [show m - 1 + 1 = m by omega] at this; omega

theorem exists_date_nat : ∀ k : Nat, (∃ y m d, ValidDate y m d ∧ daysFromCivil y m d = (k : Int)) ∧
    (∃ y m d, ValidDate y m d ∧ daysFromCivil y m d = -(k : Int))
  | 0 => ⟨⟨1970, 1, 1, by decide, by decide⟩, ⟨1970, 1, 1, by decide, by decide⟩⟩
  | k + 1 => by
    obtain ⟨⟨y, m, d, hv, hn⟩, ⟨y2, m2, d2, hv2, hn2⟩⟩ := exists_date_nat k
    obtain ⟨y', m', d', hv', hn'⟩ := exists_next y m d hv
    obtain ⟨y3, m3, d3, hv3, hn3⟩ := exists_prev y2 m2 d2 hv2
    exact ⟨⟨y', m', d', hv', by rw [hn', hn]; push_cast; rfl⟩, ⟨y3, m3, d3, hv3, by rw [hn3, hn2]; push_cast; omega⟩⟩

/-- every day number is the day number of a date of the calendar -/
theorem exists_date (n : Int) : ∃ y m d, ValidDate y m d ∧ daysFromCivil y m d = n := by
  by_cases h : 0 ≤ n
  · have := (exists_date_nat n.toNat).1
    rw [Int.toNat_of_nonneg h] at this; exact this
  · have := (exists_date_nat (-n).toNat).2
    rw [Int.toNat_of_nonneg (by omega)] at this
    rw [show - -n = n by omega] at this; exact this

/-- `civil` of ANY day number is a date of the calendar, and it is the date with that day number -/
theorem civil_valid_and_inverse (n : Int) :
    ValidDate (civil n).1 (civil n).2.1 (civil n).2.2 ∧
    daysFromCivil (civil n).1 (civil n).2.1 (civil n).2.2 = n := by
  obtain ⟨y, m, d, hv, hn⟩ := exists_date n
  have := civil_daysFromCivil y m d ⟨hv.1, hv.2.1⟩ ⟨hv.2.2.1, hv.2.2.2⟩
  rw [hn] at this
  rw [this]; exact ⟨hv, hn⟩

/-- day numbers identify dates: two valid dates with the same day number are the same date -/
theorem daysFromCivil_injective (y m d y' m' d' : Int) (hv : ValidDate y m d) (hv' : ValidDate y' m' d')
    (h : daysFromCivil y m d = daysFromCivil y' m' d') : (y, m, d) = (y', m', d') := by
  have h1 := civil_daysFromCivil y m d ⟨hv.1, hv.2.1⟩ ⟨hv.2.2.1, hv.2.2.2⟩
  have h2 := civil_daysFromCivil y' m' d' ⟨hv'.1, hv'.2.1⟩ ⟨hv'.2.2.1, hv'.2.2.2⟩
  rw [h] at h1; rw [← h1, h2]

end Time
end Reval
