/-
  Lemmas/RoundTrip.lean — every rendering of a tree under the precedence table parses back to that tree.
  Continuation-style statement per level k:
    S k e T :  if continuing the level-k loop with accumulator e on `rest` yields (e', r'),
               then parsing `T ++ rest` at level k yields (e', r')
  for `rest` whose first token cannot continue an expression that ended at a tighter level (`Fol k rest`).
-/
import RevalModel.Lemmas.ParseRel
import RevalModel.Lemmas.Literals

namespace Reval.G
open Reval

/-- the first token of `rest` (if any) is not an operator of a level tighter than `k`, not a postfix step or
    membership operator when `k < 8`, and not an opening parenthesis -/
def Fol (k : Nat) (rest : List Tok) : Prop :=
  ∀ t r, rest = t :: r →
    (∀ j, k < j → binOpAt j t = none) ∧ (k < 8 → t ≠ dot ∧ t ≠ kwContains ∧ t ≠ kwIn) ∧ t ≠ lp

def Pk (o : Oracle) (k : Nat) : List Tok → Expr → List Tok → Prop :=
  if k = 0 then PIf o else if k ≤ 5 then PBin o k else if k = 6 then PCont o else if k = 7 then PUn o
  else if k = 8 then PIdx o else PTerm o

def Lk (o : Oracle) (k : Nat) : Expr → List Tok → Expr → List Tok → Prop :=
  if 1 ≤ k ∧ k ≤ 5 then LBin o k else if k = 8 then LIdx o else fun acc ts e r => acc = e ∧ ts = r

def S (o : Oracle) (k : Nat) (e : Expr) (T : List Tok) : Prop :=
  ∀ rest e' r', Fol k rest → Lk o k e rest e' r' → Pk o k (T ++ rest) e' r'

/-- the first token of a rendering that stands for a phrase of level ≥ j -/
def FirstGE (j : Nat) (T : List Tok) : Prop :=
  ∃ t r, T = t :: r ∧ (1 ≤ j → t ≠ kwIf) ∧ (8 ≤ j → t ≠ minus ∧ t ≠ bang) ∧ t ≠ .p [']']

theorem FirstGE_mono {j k : Nat} {T : List Tok} (h : FirstGE j T) (hk : k ≤ j) : FirstGE k T := by
  obtain ⟨t, r, rfl, h1, h2, h3⟩ := h
  exact ⟨t, r, rfl, fun hk1 => h1 (by omega), fun hk8 => h2 (by omega), h3⟩

theorem Fol_mono {j k : Nat} {rest : List Tok} (h : Fol k rest) (hk : k ≤ j) : Fol j rest := by
  intro t r e
  obtain ⟨h1, h2, h3⟩ := h t r e
  exact ⟨fun i hi => h1 i (by omega), fun hj => h2 (by omega), h3⟩

/-- the loop of any level above `k` stops immediately at a `Fol k` rest -/
theorem Lk_stop {o : Oracle} {k j : Nat} {rest : List Tok} (e : Expr) (h : Fol k rest) (hj : k < j) : Lk o j e rest e rest := by
  unfold Lk
  split
  · exact LBin_stop (fun t r er => (h t r er).1 j hj)
  · split
    · rename_i h8; subst h8
      exact LIdx_stop (fun r er => ((h _ r er).2.1 hj).1 rfl)
    · exact ⟨rfl, rfl⟩

theorem Pk_lt6 {o : Oracle} {k : Nat} (h1 : 1 ≤ k) (h5 : k ≤ 5) : Pk o k = PBin o k := by
  unfold Pk; simp [show k ≠ 0 by omega, h5]

theorem Lk_bin {o : Oracle} {k : Nat} (h1 : 1 ≤ k) (h5 : k ≤ 5) : Lk o k = LBin o k := by
  unfold Lk; simp [h1, h5]

theorem Lk_triv {o : Oracle} {k : Nat} (h : ¬ (1 ≤ k ∧ k ≤ 5)) (h8 : k ≠ 8) :
    Lk o k = fun acc ts e r => acc = e ∧ ts = r := by
  unfold Lk; simp [h, h8]

/-- PBin at level `k+1` for any `k+1 ≤ 6`, from `Pk` -/
theorem PBin_of_Pk {o : Oracle} {k : Nat} {ts r : List Tok} {e : Expr} (h1 : 1 ≤ k) (h6 : k ≤ 6) (h : Pk o k ts e r) :
    PBin o k ts e r := by
  by_cases h5 : k ≤ 5
  · rw [Pk_lt6 h1 h5] at h; exact h
  · have : k = 6 := by omega
    subst this
    exact PBin_six (Nat.le_refl 6) (by simpa [Pk] using h)

/-- one step down: from level `k+1` to level `k` (not through the unary level) -/
theorem S_down {o : Oracle} {e : Expr} {T : List Tok} {j : Nat} (hF : FirstGE j T) (hj9 : j ≤ 9) :
    ∀ k, k < j → (k = 6 → 8 ≤ j) → S o (if k = 6 then 8 else k + 1) e T → S o k e T := by
  intro k hkj h6 hS rest e' r' hfol hL
  obtain ⟨t, r, rfl, hIf, hUn, _⟩ := hF
  by_cases hk0 : k = 0
  · -- IfExpr falls through to LogExpr when the text does not start with `if`
    subst hk0
    simp only [show ((0 : Nat) = 6) = False by simp, if_false] at hS
    have hP := hS rest e rest (Fol_mono hfol (by omega)) (Lk_stop e hfol (by omega))
    have hL' : e = e' ∧ rest = r' := by simpa [Lk] using hL
    obtain ⟨rfl, rfl⟩ := hL'
    have : Pk o 0 = PIf o := by simp [Pk]
    rw [this]
    refine PIf_of_bin (fun r'' he => ?_) (PBin_of_Pk (by omega) (by omega) hP)
    have := List.cons.inj he
    exact hIf (by omega) this.1
  · by_cases hk5 : k ≤ 5
    · -- a binary level: parse one level tighter, then this level's loop
      have hk6 : k ≠ 6 := by omega
      simp only [hk6, if_false] at hS
      have hP := hS rest e rest (Fol_mono hfol (by omega)) (Lk_stop e hfol (by omega))
      rw [Pk_lt6 (by omega) hk5]
      rw [Lk_bin (by omega) hk5] at hL
      exact PBin_step (by omega) (PBin_of_Pk (by omega) (by omega) hP) hL
    · by_cases hk6 : k = 6
      · -- ContainsExpr → IndexExpr (the text does not start with - or !, and `rest` not with contains / in)
        subst hk6
        simp only [if_true] at hS
        have h8 := h6 rfl
        have hP := hS rest e rest (Fol_mono hfol (by omega)) (Lk_stop e hfol (by omega))
        have hL' : e = e' ∧ rest = r' := by simpa [Lk] using hL
        obtain ⟨rfl, rfl⟩ := hL'
        have hPk : Pk o 6 = PCont o := by simp [Pk]
        have hP8 : Pk o 8 = PIdx o := by simp [Pk]
        rw [hPk]; rw [hP8] at hP
        refine PCont_tail (fun r'' => ⟨fun he => ?_, fun he => ?_⟩) (PContTail_plain hP (fun r'' => ⟨fun he => ?_, fun he => ?_⟩))
        · exact (hUn h8).1 (List.cons.inj he).1
        · exact (hUn h8).2 (List.cons.inj he).1
        · exact ((hfol _ _ he).2.1 (by omega)).2.1 rfl
        · exact ((hfol _ _ he).2.1 (by omega)).2.2 rfl
      · by_cases hk7 : k = 7
        · -- UnaryExpr → IndexExpr
          subst hk7
          simp only [show ((7 : Nat) = 6) = False by simp, if_false] at hS
          have hP := hS rest e rest (Fol_mono hfol (by omega)) (Lk_stop e hfol (by omega))
          have hL' : e = e' ∧ rest = r' := by simpa [Lk] using hL
          obtain ⟨rfl, rfl⟩ := hL'
          have hPk : Pk o 7 = PUn o := by simp [Pk]
          have hP8 : Pk o 8 = PIdx o := by simp [Pk]
          rw [hPk]; rw [hP8] at hP
          refine PUn_index (fun r'' => ⟨fun he => ?_, fun he => ?_⟩) hP
          · exact (hUn (by omega)).1 (List.cons.inj he).1
          · exact (hUn (by omega)).2 (List.cons.inj he).1
        · -- k = 8: IndexExpr = Term then the postfix loop
          have hk8 : k = 8 := by omega
          subst hk8
          simp only [show ((8 : Nat) = 6) = False by simp, if_false] at hS
          have hP := hS rest e rest (Fol_mono hfol (by omega)) (Lk_stop e hfol (by omega))
          have hPk : Pk o 8 = PIdx o := by simp [Pk]
          have hP9 : Pk o 9 = PTerm o := by simp [Pk]
          have hL8 : Lk o 8 = LIdx o := by simp [Lk]
          rw [hPk]; rw [hP9] at hP; rw [hL8] at hL
          exact PIdx_intro hP hL

end Reval.G

namespace Reval.G
open Reval

/-! ### descent through all looser levels -/

theorem S_descend {o : Oracle} {e : Expr} {T : List Tok} {j : Nat} (hF : FirstGE j T) (hj9 : j ≤ 9) (hj7 : j ≠ 7)
    (hS : S o j e T) : ∀ k, k ≤ j → S o k e T := by
  have key : ∀ n k, j - k = n → k ≤ j → S o k e T := by
    intro n
    induction n using Nat.strongRecOn with
    | _ n ih =>
      intro k hn hk
      by_cases hkj : k = j
      · subst hkj; exact hS
      · have hlt : k < j := by omega
        refine S_down hF hj9 k hlt (fun h6 => by omega) ?_
        by_cases h6 : k = 6
        · simp only [h6, if_true]
          exact ih (j - 8) (by omega) 8 rfl (by omega)
        · simp only [h6, if_false]
          exact ih (j - (k + 1)) (by omega) (k + 1) rfl (by omega)
  intro k hk
  exact key (j - k) k rfl hk

/-! ### facts about the operator table -/

theorem binOpAt_gt5 {j : Nat} (t : Tok) (h : 5 < j) : binOpAt j t = none := by
  unfold binOpAt
  split <;> first | rfl | omega

/-- tokens that close a bracketed or keyword-delimited phrase: no operator table lists them -/
def Closer (c : Tok) : Prop :=
  (∀ j, binOpAt j c = none) ∧ c ≠ dot ∧ c ≠ kwContains ∧ c ≠ kwIn ∧ c ≠ lp

theorem Fol_closer {c : Tok} (h : Closer c) (k : Nat) (rest : List Tok) : Fol k (c :: rest) := by
  intro t r e
  obtain ⟨rfl, _⟩ := List.cons.inj e
  exact ⟨fun j _ => h.1 j, fun _ => ⟨h.2.1, h.2.2.1, h.2.2.2.1⟩, h.2.2.2.2⟩

theorem Fol_nil (k : Nat) : Fol k [] := by intro t r e; cases e

theorem closer_rp : Closer rp := by
  refine ⟨fun j => ?_, by decide, by decide, by decide, by decide⟩
  unfold binOpAt rp; split <;> first | rfl | (rename_i hq; cases hq <;> simp [eqOpOf, addOpOf, multOpOf, bitOpOf])
theorem closer_rb : Closer (.p [']']) := by
  refine ⟨fun j => ?_, by decide, by decide, by decide, by decide⟩
  unfold binOpAt; split <;> first | rfl | (rename_i hq; cases hq <;> simp [eqOpOf, addOpOf, multOpOf, bitOpOf])
theorem closer_rc : Closer (.p ['}']) := by
  refine ⟨fun j => ?_, by decide, by decide, by decide, by decide⟩
  unfold binOpAt; split <;> first | rfl | (rename_i hq; cases hq <;> simp [eqOpOf, addOpOf, multOpOf, bitOpOf])
theorem closer_comma : Closer comma := by
  refine ⟨fun j => ?_, by decide, by decide, by decide, by decide⟩
  unfold binOpAt comma; split <;> first | rfl | (rename_i hq; cases hq <;> simp [eqOpOf, addOpOf, multOpOf, bitOpOf])
theorem closer_then : Closer kwThen := by
  refine ⟨fun j => ?_, by decide, by decide, by decide, by decide⟩
  unfold binOpAt kwThen; split <;> first | rfl | (rename_i hq; cases hq <;> simp)
theorem closer_else : Closer kwElse := by
  refine ⟨fun j => ?_, by decide, by decide, by decide, by decide⟩
  unfold binOpAt kwElse; split <;> first | rfl | (rename_i hq; cases hq <;> simp)

end Reval.G

namespace Reval.G
open Reval

theorem binOpAt_other {k : Nat} {t : Tok} {mk : Expr → Expr → Expr} (h : binOpAt k t = some mk) :
    ∀ j, j ≠ k → binOpAt j t = none := by
  intro j hj
  unfold binOpAt at h
  split at h
  all_goals first
    | cases h
    | (unfold binOpAt; split <;> first | rfl | omega | (rename_i hq; cases hq))
  all_goals (simp only [eqOpOf, addOpOf, multOpOf, bitOpOf] at h ⊢; repeat' split at h)
  all_goals first | (subst_vars; simp at h ⊢) | simp_all

theorem binOpAt_tok {k : Nat} {t : Tok} {mk : Expr → Expr → Expr} (h : binOpAt k t = some mk) :
    1 ≤ k ∧ k ≤ 5 ∧ t ≠ dot ∧ t ≠ kwContains ∧ t ≠ kwIn ∧ t ≠ lp ∧ ∀ l r, lvl (mk l r) = k := by
  unfold binOpAt at h
  split at h
  all_goals first
    | cases h
    | (simp only [eqOpOf, addOpOf, multOpOf, bitOpOf] at h; repeat' split at h)
    | (repeat' split at h)
  all_goals (try cases h)
  all_goals (subst_vars; simp [dot, kwContains, kwIn, lp, lvl, binLvl, mkEq])

end Reval.G

namespace Reval.G
open Reval

/-! ### the induction over renderings -/

section
variable {o : Oracle}

def MB (o : Oracle) (e : Expr) (T : List Tok) : Prop := (∀ k, k ≤ lvl e → S o k e T) ∧ FirstGE (lvl e) T
def MR (o : Oracle) (k : Nat) (e : Expr) (T : List Tok) : Prop := S o k e T ∧ FirstGE k T
def ML (o : Oracle) (xs : List Expr) (T : List Tok) : Prop := ∀ rest, PVec o (T ++ rest) xs rest
def MM (o : Oracle) (kvs : List (Str × Expr)) (T : List Tok) : Prop := ∀ rest, PMap o (T ++ rest) kvs rest

theorem S0_close {e : Expr} {T : List Tok} (h : S o 0 e T) {c : Tok} (hc : Closer c) (rest : List Tok) :
    PIf o (T ++ c :: rest) e (c :: rest) := by
  have := h (c :: rest) e (c :: rest) (Fol_closer hc 0 rest) (by simp [Lk])
  simpa [Pk] using this

theorem S0_end {e : Expr} {T : List Tok} (h : S o 0 e T) : PIf o T e [] := by
  have := h [] e [] (Fol_nil 0) (by simp [Lk])
  simpa [Pk] using this

theorem FirstGE_append {j : Nat} {T : List Tok} (h : FirstGE j T) (U : List Tok) : FirstGE j (T ++ U) := by
  obtain ⟨t, r, rfl, h1, h2, h3⟩ := h
  exact ⟨t, r ++ U, rfl, h1, h2, h3⟩

theorem FirstGE_ne_rb {j : Nat} {T : List Tok} (h : FirstGE j T) (U : List Tok) : ∀ r', T ++ U ≠ .p [']'] :: r' := by
  obtain ⟨t, r, rfl, _, _, h3⟩ := h
  intro r' e
  exact h3 (List.cons.inj e).1

theorem FirstGE_no_unary {T : List Tok} (h : FirstGE 8 T) (U : List Tok) : ∀ r, T ++ U ≠ minus :: r ∧ T ++ U ≠ bang :: r := by
  obtain ⟨t, r, rfl, _, h2, _⟩ := h
  intro r'
  exact ⟨fun e => (h2 (Nat.le_refl 8)).1 (List.cons.inj e).1, fun e => (h2 (Nat.le_refl 8)).2 (List.cons.inj e).1⟩

/-- atoms: everything `Term` parses directly -/
theorem atom {e : Expr} {T : List Tok} (hl : lvl e = 9) (hF : FirstGE 9 T)
    (hP : ∀ rest, Fol 9 rest → PTerm o (T ++ rest) e rest) : MB o e T := by
  refine ⟨?_, by rw [hl]; exact hF⟩
  rw [hl]
  refine S_descend hF (Nat.le_refl 9) (by omega) ?_
  intro rest e' r' hfol hL
  have hL' : e = e' ∧ rest = r' := by simpa [Lk] using hL
  obtain ⟨rfl, rfl⟩ := hL'
  simpa [Pk] using hP rest hfol

theorem Fol_noLP {k : Nat} {rest : List Tok} (h : Fol k rest) : NoLP rest := by
  intro r' e; exact (h _ _ e).2.2 rfl

theorem first_cons (j : Nat) (t : Tok) (r : List Tok) (h1 : t ≠ kwIf) (h2 : t ≠ minus) (h3 : t ≠ bang) (h4 : t ≠ .p [']']) :
    FirstGE j (t :: r) := ⟨t, r, rfl, fun _ => h1, fun _ => ⟨h2, h3⟩, h4⟩

theorem case_litTok (t : Tok) (v : Value) (x : List Tok) (ht : IsLitTok t) (h : Lit.ofTok o t = .ok v x) : MB o (.lit v) [t] := by
  refine atom rfl ?_ (fun rest _ => PTerm_lit ht h)
  cases t <;> simp only [IsLitTok] at ht
  all_goals exact first_cons _ _ _ (by simp [kwIf]) (by simp [minus]) (by simp [bang]) (by simp)

theorem case_litTrue : MB o (.lit (.bool true)) [.kw ['t', 'r', 'u', 'e']] :=
  atom rfl (first_cons _ _ _ (by simp [kwIf]) (by simp [minus]) (by simp [bang]) (by simp)) (fun _ _ => PTerm_true)

theorem case_litFalse : MB o (.lit (.bool false)) [.kw ['f', 'a', 'l', 's', 'e']] :=
  atom rfl (first_cons _ _ _ (by simp [kwIf]) (by simp [minus]) (by simp [bang]) (by simp)) (fun _ _ => PTerm_false)

theorem case_litNone : MB o (.lit .none) [.kw ['n', 'o', 'n', 'e']] :=
  atom rfl (first_cons _ _ _ (by simp [kwIf]) (by simp [minus]) (by simp [bang]) (by simp)) (fun _ hfol => PTerm_none (Fol_noLP hfol))

theorem case_ref (n : Str) : MB o (.ref n) [.ident n] :=
  atom rfl (first_cons _ _ _ (by simp [kwIf]) (by simp [minus]) (by simp [bang]) (by simp))
    (fun _ hfol => PTerm_ref (Fol_noLP hfol))

theorem case_sym (n : Str) : MB o (.sym n) [colon, .ident n] :=
  atom rfl (first_cons _ _ _ (by simp [kwIf, colon]) (by simp [minus, colon]) (by simp [bang, colon]) (by simp [colon]))
    (fun _ _ => PTerm_sym)

theorem case_call (f : Str) (a : Expr) (T : List Tok) (ih : MR o 0 a T) : MB o (.call f a) (.ident f :: lp :: (T ++ [rp])) :=
  atom rfl (first_cons _ _ _ (by simp [kwIf]) (by simp [minus]) (by simp [bang]) (by simp))
    (fun rest _ => by
      have := PTerm_call (x := f) (S0_close ih.1 closer_rp rest)
      simpa using this)

theorem ite_some_ne {α : Type} {c : Prop} [Decidable c] {a x : α} {rest : Option α} (h1 : a ≠ x) (h2 : rest ≠ some x) :
    (if c then some a else rest) ≠ some x := by
  split
  · intro h; exact h1 (Option.some.inj h)
  · exact h2

theorem funcOfKw_ne (k : Str) : funcOfKw k ≠ some .neg ∧ funcOfKw k ≠ some .not := by
  unfold funcOfKw
  constructor
  · repeat (refine ite_some_ne (by simp) ?_)
    simp
  · repeat (refine ite_some_ne (by simp) ?_)
    simp

theorem case_func (k : Str) (op : UnOp) (e : Expr) (T : List Tok) (hk : funcOfKw k = some op) (ih : MR o 0 e T) :
    MB o (.un op e) (.kw k :: lp :: (T ++ [rp])) := by
  have hl : lvl (.un op e) = 9 := by
    cases op <;> first | rfl | exact absurd hk (funcOfKw_ne k).1 | exact absurd hk (funcOfKw_ne k).2
  have hif : (Tok.kw k) ≠ kwIf := by
    intro e; cases e; revert hk; simp [funcOfKw]
  exact atom hl (first_cons _ _ _ hif (by simp [minus]) (by simp [bang]) (by simp))
    (fun rest _ => by
      have := PTerm_func hk (S0_close ih.1 closer_rp rest)
      simpa using this)

theorem case_vec (xs : List Expr) (T : List Tok) (ih : ML o xs T) : MB o (.vec xs) (.p ['['] :: T) :=
  atom rfl (first_cons _ _ _ (by simp [kwIf]) (by simp [minus]) (by simp [bang]) (by simp))
    (fun rest _ => PTerm_vec (ih rest))

theorem case_map (kvs : List (Str × Expr)) (T : List Tok) (ih : MM o kvs T) : MB o (.map (collectMap kvs)) (.p ['{'] :: T) :=
  atom rfl (first_cons _ _ _ (by simp [kwIf]) (by simp [minus]) (by simp [bang]) (by simp))
    (fun rest _ => PTerm_map (ih rest))

/-- nodes of level 8 (postfix steps): the accumulator continues through the postfix loop -/
theorem index_node {e : Expr} {T : List Tok} (hl : lvl e = 8) (hF : FirstGE 8 T) (hS : S o 8 e T) : MB o e T := by
  refine ⟨?_, by rw [hl]; exact hF⟩
  rw [hl]
  exact S_descend hF (by omega) (by omega) hS

theorem Fol_dot (rest : List Tok) : Fol 8 (dot :: rest) := by
  intro t r e
  obtain ⟨rfl, _⟩ := List.cons.inj e
  exact ⟨fun j hj => binOpAt_gt5 _ (by omega), fun h => absurd h (by omega), by decide⟩

theorem case_indexKey (e : Expr) (T : List Tok) (k : Str) (ih : MR o 8 e T) :
    MB o (.index e (.key k)) (T ++ [dot, .ident k]) := by
  refine index_node rfl (FirstGE_append ih.2 _) ?_
  intro rest e' r' _ hL
  have hL8 : Lk o 8 = LIdx o := by simp [Lk]
  rw [hL8] at hL
  have := ih.1 (dot :: .ident k :: rest) e' r' (Fol_dot _) (by rw [hL8]; exact LIdx_key hL)
  simpa using this

theorem case_indexPos (e : Expr) (T : List Tok) (ds : Str) (hn : Str.ofDigits ds ≤ u64Max) (ih : MR o 8 e T) :
    MB o (.index e (.pos (Str.ofDigits ds))) (T ++ [dot, .index ds]) := by
  refine index_node rfl (FirstGE_append ih.2 _) ?_
  intro rest e' r' _ hL
  have hL8 : Lk o 8 = LIdx o := by simp [Lk]
  rw [hL8] at hL
  have := ih.1 (dot :: .index ds :: rest) e' r' (Fol_dot _) (by rw [hL8]; exact LIdx_pos hn hL)
  simpa using this

theorem case_ite (c t e : Expr) (Tc Tt Te : List Tok) (ihc : MR o 0 c Tc) (iht : MR o 0 t Tt) (ihe : MR o 0 e Te) :
    MB o (.ite c t e) (kwIf :: (Tc ++ kwThen :: (Tt ++ kwElse :: Te))) := by
  refine ⟨fun k hk => ?_, ⟨kwIf, _, rfl, fun h => absurd h (by simp [lvl]), fun h => absurd h (by simp [lvl]), by decide⟩⟩
  have hk0 : k = 0 := by simpa [lvl] using hk
  subst hk0
  intro rest e' r' hfol hL
  have hL' : Expr.ite c t e = e' ∧ rest = r' := by simpa [Lk] using hL
  obtain ⟨rfl, rfl⟩ := hL'
  have h3 : PIf o (Te ++ rest) e rest := by
    have := ihe.1 rest e rest hfol (by simp [Lk])
    simpa [Pk] using this
  have h2 := S0_close iht.1 closer_else (Te ++ rest)
  have h1 := S0_close ihc.1 closer_then (Tt ++ kwElse :: (Te ++ rest))
  have := PIf_ite h1 h2 h3
  simpa [Pk] using this

theorem case_bin (k : Nat) (t : Tok) (mk : Expr → Expr → Expr) (l r : Expr) (Tl Tr : List Tok) (h1 : 1 ≤ k) (h5 : k ≤ 5)
    (hop : binOpAt k t = some mk) (ihl : MR o k l Tl) (ihr : MR o (k + 1) r Tr) : MB o (mk l r) (Tl ++ t :: Tr) := by
  obtain ⟨_, _, hd, hc, hi, hlp, hlvl⟩ := binOpAt_tok hop
  have hF : FirstGE k (Tl ++ t :: Tr) := FirstGE_append ihl.2 _
  refine ⟨?_, by rw [hlvl]; exact hF⟩
  rw [hlvl]
  refine S_descend hF (by omega) (by omega) ?_
  intro rest e' r' hfol hL
  rw [Lk_bin h1 h5] at hL
  rw [Pk_lt6 h1 h5]
  -- the right operand, parsed one level tighter, stops at `rest`
  have hr : PBin o (k + 1) (Tr ++ rest) r rest :=
    PBin_of_Pk (by omega) (by omega) (ihr.1 rest r rest (Fol_mono hfol (by omega)) (Lk_stop r hfol (by omega)))
  have hfolT : Fol k (t :: (Tr ++ rest)) := by
    intro t' r'' e
    obtain ⟨rfl, _⟩ := List.cons.inj e
    exact ⟨fun j hj => binOpAt_other hop j (by omega), fun _ => ⟨hd, hc, hi⟩, hlp⟩
  have := ihl.1 (t :: (Tr ++ rest)) e' r' hfolT (by rw [Lk_bin h1 h5]; exact LBin_step hop hr hL)
  rw [Pk_lt6 h1 h5] at this
  simpa using this

theorem Fol8_kw {t : Tok} (h : t = kwContains ∨ t = kwIn) (rest : List Tok) : Fol 8 (t :: rest) := by
  intro t' r e
  obtain ⟨rfl, _⟩ := List.cons.inj e
  refine ⟨fun j hj => binOpAt_gt5 _ (by omega), fun h8 => absurd h8 (by omega), ?_⟩
  rcases h with rfl | rfl <;> decide

theorem Lk8_stop_kw {t : Tok} (h : t = kwContains ∨ t = kwIn) (e : Expr) (rest : List Tok) :
    Lk o 8 e (t :: rest) e (t :: rest) := by
  have hL8 : Lk o 8 = LIdx o := by simp [Lk]
  rw [hL8]
  refine LIdx_stop (fun r e => ?_)
  obtain ⟨rfl, _⟩ := List.cons.inj e
  rcases h with h | h <;> exact absurd h (by decide)

theorem case_contains (l r : Expr) (Tl Tr : List Tok) (ihl : MR o 8 l Tl) (ihr : MR o 8 r Tr) :
    MB o (.bin .contains l r) (Tl ++ kwContains :: Tr) := by
  have hF : FirstGE 6 (Tl ++ kwContains :: Tr) := FirstGE_append (FirstGE_mono ihl.2 (by omega)) _
  change (∀ k, k ≤ 6 → S o k _ _) ∧ FirstGE 6 _
  refine ⟨S_descend hF (by omega) (by omega) ?_, hF⟩
  intro rest e' r' hfol hL
  have hL' : Expr.bin .contains l r = e' ∧ rest = r' := by simpa [Lk] using hL
  obtain ⟨rfl, rfl⟩ := hL'
  have hP8 : Pk o 8 = PIdx o := by simp [Pk]
  have hl : PIdx o (Tl ++ kwContains :: (Tr ++ rest)) l (kwContains :: (Tr ++ rest)) := by
    have := ihl.1 (kwContains :: (Tr ++ rest)) l _ (Fol8_kw (Or.inl rfl) _) (Lk8_stop_kw (Or.inl rfl) l _)
    exact hP8 ▸ this
  have hr : PIdx o (Tr ++ rest) r rest := by
    have := ihr.1 rest r rest (Fol_mono hfol (by omega)) (Lk_stop r hfol (by omega))
    exact hP8 ▸ this
  have := PCont_tail (FirstGE_no_unary ihl.2 _) (PContTail_contains hl hr)
  simpa [Pk] using this

theorem case_isIn (l r : Expr) (Tl Tr : List Tok) (ihl : MR o 8 l Tl) (ihr : MR o 8 r Tr) :
    MB o (.bin .contains l r) (Tr ++ kwIn :: Tl) := by
  have hF : FirstGE 6 (Tr ++ kwIn :: Tl) := FirstGE_append (FirstGE_mono ihr.2 (by omega)) _
  change (∀ k, k ≤ 6 → S o k _ _) ∧ FirstGE 6 _
  refine ⟨S_descend hF (by omega) (by omega) ?_, hF⟩
  intro rest e' r' hfol hL
  have hL' : Expr.bin .contains l r = e' ∧ rest = r' := by simpa [Lk] using hL
  obtain ⟨rfl, rfl⟩ := hL'
  have hP8 : Pk o 8 = PIdx o := by simp [Pk]
  have hr : PIdx o (Tr ++ kwIn :: (Tl ++ rest)) r (kwIn :: (Tl ++ rest)) := by
    have := ihr.1 (kwIn :: (Tl ++ rest)) r _ (Fol8_kw (Or.inr rfl) _) (Lk8_stop_kw (Or.inr rfl) r _)
    exact hP8 ▸ this
  have hl : PIdx o (Tl ++ rest) l rest := by
    have := ihl.1 rest l rest (Fol_mono hfol (by omega)) (Lk_stop l hfol (by omega))
    exact hP8 ▸ this
  have := PCont_tail (FirstGE_no_unary ihr.2 _) (PContTail_in hr hl)
  simpa [Pk] using this

theorem unary_node {e x : Expr} {t : Tok} {T : List Tok} (ht : t = minus ∨ t = bang) (hl : lvl x = 7)
    (hP : ∀ {r r'}, PUn o r e r' → PUn o (t :: r) x r') (ih : MR o 7 e T) : MB o x (t :: T) := by
  have hF : ∀ j, j ≤ 7 → FirstGE j (t :: T) := fun j hj =>
    ⟨t, T, rfl, fun _ => by rcases ht with rfl | rfl <;> decide, fun h8 => absurd h8 (by omega),
      by rcases ht with rfl | rfl <;> decide⟩
  have hP7 : Pk o 7 = PUn o := by simp [Pk]
  have hun : ∀ rest, Fol 7 rest → PUn o (t :: (T ++ rest)) x rest := fun rest hfol =>
    hP (hP7 ▸ ih.1 rest e rest hfol (by simp [Lk]))
  have hS7 : S o 7 x (t :: T) := by
    intro rest e' r' hfol hL
    have hL' : x = e' ∧ rest = r' := by simpa [Lk] using hL
    obtain ⟨rfl, rfl⟩ := hL'
    rw [hP7]; exact hun rest hfol
  have hS6 : S o 6 x (t :: T) := by
    intro rest e' r' hfol hL
    have hL' : x = e' ∧ rest = r' := by simpa [Lk] using hL
    obtain ⟨rfl, rfl⟩ := hL'
    have hP6 : Pk o 6 = PCont o := by simp [Pk]
    rw [hP6]; exact PCont_unary ht (hun rest (Fol_mono hfol (by omega)))
  refine ⟨fun k hk => ?_, by rw [hl]; exact hF 7 (Nat.le_refl 7)⟩
  rw [hl] at hk
  by_cases h7 : k = 7
  · subst h7; exact hS7
  · exact S_descend (hF 6 (by omega)) (by omega) (by omega) hS6 k (by omega)

theorem case_neg (e : Expr) (T : List Tok) (ih : MR o 7 e T) : MB o (.un .neg e) (minus :: T) :=
  unary_node (Or.inl rfl) rfl PUn_neg ih

theorem case_not (e : Expr) (T : List Tok) (ih : MR o 7 e T) : MB o (.un .not e) (bang :: T) :=
  unary_node (Or.inr rfl) rfl PUn_not ih

theorem case_bare (k : Nat) (e : Expr) (T : List Tok) (hk : k ≤ lvl e) (ih : MB o e T) : MR o k e T :=
  ⟨ih.1 k hk, FirstGE_mono ih.2 hk⟩

theorem case_paren (k : Nat) (e : Expr) (T : List Tok) (ih : MR o 0 e T) : MR o k e (lp :: (T ++ [rp])) := by
  have hF : ∀ j, FirstGE j (lp :: (T ++ [rp])) := fun j => first_cons j _ _ (by decide) (by decide) (by decide) (by decide)
  have hT : ∀ rest, PTerm o (lp :: (T ++ [rp]) ++ rest) e rest := fun rest => by
    have := PTerm_paren (S0_close ih.1 closer_rp rest)
    simpa using this
  refine ⟨?_, hF k⟩
  have hS9 : S o 9 e (lp :: (T ++ [rp])) := by
    intro rest e' r' _ hL
    have hL' : e = e' ∧ rest = r' := by simpa [Lk] using hL
    obtain ⟨rfl, rfl⟩ := hL'
    have hP9 : Pk o 9 = PTerm o := by simp [Pk]
    rw [hP9]; exact hT rest
  by_cases hk : k ≤ 9
  · exact S_descend (hF 9) (Nat.le_refl 9) (by omega) hS9 k hk
  · intro rest e' r' _ hL
    have hLk : Lk o k = fun acc ts e r => acc = e ∧ ts = r := Lk_triv (by omega) (by omega)
    rw [hLk] at hL
    obtain ⟨rfl, rfl⟩ := hL
    have hPk : Pk o k = PTerm o := by
      unfold Pk
      simp [show k ≠ 0 by omega, show ¬ k ≤ 5 by omega, show k ≠ 6 by omega, show k ≠ 7 by omega, show k ≠ 8 by omega]
    rw [hPk]; exact hT rest

theorem case_lnil : ML o [] [.p [']']] := fun _ => PVec_nil

theorem case_llast (e : Expr) (T : List Tok) (ih : MR o 0 e T) : ML o [e] (T ++ [.p [']']]) := fun rest => by
  have := PVec_last (FirstGE_ne_rb ih.2 _) (S0_close ih.1 closer_rb rest)
  simpa using this

theorem case_lcons (e : Expr) (es : List Expr) (T Ts : List Tok) (ih : MR o 0 e T) (ihs : ML o es Ts) :
    ML o (e :: es) (T ++ comma :: Ts) := fun rest => by
  have := PVec_cons (FirstGE_ne_rb ih.2 _) (S0_close ih.1 closer_comma (Ts ++ rest)) (ihs rest)
  simpa using this

theorem case_mnil : MM o [] [.p ['}']] := fun _ => PMap_nil

theorem case_mlast (k : Str) (e : Expr) (T : List Tok) (ih : MR o 0 e T) :
    MM o [(k, e)] (.ident k :: colon :: (T ++ [.p ['}']])) := fun rest => by
  have := PMap_last (k := k) (S0_close ih.1 closer_rc rest)
  simpa using this

theorem case_mcons (k : Str) (e : Expr) (es : List (Str × Expr)) (T Ts : List Tok) (ih : MR o 0 e T) (ihs : MM o es Ts) :
    MM o ((k, e) :: es) (.ident k :: colon :: (T ++ comma :: Ts)) := fun rest => by
  have := PMap_cons (k := k) (S0_close ih.1 closer_comma (Ts ++ rest)) (ihs rest)
  simpa using this

/-- the induction: every rendering is parsed back, at every level the table allows for it -/
theorem R_sound {k : Nat} {e : Expr} {T : List Tok} (h : R o k e T) : MR o k e T :=
  @R.rec o (fun e T _ => MB o e T) (fun k e T _ => MR o k e T) (fun xs T _ => ML o xs T) (fun kvs T _ => MM o kvs T)
    (fun t v x ht h => case_litTok t v x ht h) case_litTrue case_litFalse case_litNone (fun n => case_ref n) (fun n => case_sym n)
    (fun e T k _ ih => case_indexKey e T k ih) (fun e T n _ hn ih => case_indexPos e T n hn ih)
    (fun f a T _ ih => case_call f a T ih) (fun k op e T hk _ ih => case_func k op e T hk ih)
    (fun c t e Tc Tt Te _ _ _ i1 i2 i3 => case_ite c t e Tc Tt Te i1 i2 i3)
    (fun k t mk l r Tl Tr h1 h5 hop _ _ i1 i2 => case_bin k t mk l r Tl Tr h1 h5 hop i1 i2)
    (fun l r Tl Tr _ _ i1 i2 => case_contains l r Tl Tr i1 i2)
    (fun l r Tl Tr _ _ i1 i2 => case_isIn l r Tl Tr i1 i2)
    (fun e T _ ih => case_neg e T ih) (fun e T _ ih => case_not e T ih)
    (fun xs T _ ih => case_vec xs T ih) (fun kvs T _ ih => case_map kvs T ih)
    (fun k e T hk _ ih => case_bare k e T hk ih) (fun k e T _ ih => case_paren k e T ih)
    case_lnil (fun e T _ ih => case_llast e T ih) (fun e es T Ts _ _ i1 i2 => case_lcons e es T Ts i1 i2)
    case_mnil (fun k e T _ ih => case_mlast k e T ih) (fun k e es T Ts _ _ i1 i2 => case_mcons k e es T Ts i1 i2)
    k e T h

/-- **parse ∘ render = id** at the token level: a token list that renders `e` under the precedence table — with the
    parentheses the table requires and any redundant ones — is parsed to exactly `e` with nothing left over, for every
    sufficiently large fuel -/
theorem parse_render {e : Expr} {T : List Tok} (h : R o 0 e T) : ∃ f0, ∀ f, f0 ≤ f → pIf o f T = .ok e [] :=
  S0_end (R_sound h).1

end
end Reval.G
