/-
  Lemmas/DisplayRT.lean — the tokens `Display` prints for a tree are a rendering of that tree under the precedence
  table (`G.R`), hence parse back to it (Lemmas/RoundTrip).
-/
import RevalModel.Spec.Printer
import RevalModel.Lemmas.RoundTrip

set_option linter.unusedSimpArgs false

namespace Reval.G
open Reval Reval.Disp

mutual
/-- trees whose leaves the printer can express: literal leaves convert back (`LitOK`), numeric indices fit `u64`,
    map literals are in the form the parser builds (sorted, distinct keys) -/
def Printable (o : Oracle) (sf : F64 → Str) : Expr → Prop
  | .lit v => LitOK o sf v
  | .ref _ => True
  | .sym _ => True
  | .call _ a => Printable o sf a
  | .index e (.key _) => Printable o sf e
  | .index e (.pos n) => Printable o sf e ∧ n ≤ u64Max
  | .ite c t e => Printable o sf c ∧ Printable o sf t ∧ Printable o sf e
  | .and l r => Printable o sf l ∧ Printable o sf r
  | .or l r => Printable o sf l ∧ Printable o sf r
  | .eq l r => Printable o sf l ∧ Printable o sf r
  | .neq l r => Printable o sf l ∧ Printable o sf r
  | .un _ e => Printable o sf e
  | .bin _ l r => Printable o sf l ∧ Printable o sf r
  | .vec xs => PrintableL o sf xs
  | .map kvs => PrintableM o sf kvs ∧ collectMap kvs = kvs
def PrintableL (o : Oracle) (sf : F64 → Str) : List Expr → Prop
  | [] => True
  | e :: es => Printable o sf e ∧ PrintableL o sf es
def PrintableM (o : Oracle) (sf : F64 → Str) : List (Str × Expr) → Prop
  | [] => True
  | (_, e) :: kvs => Printable o sf e ∧ PrintableM o sf kvs
end

/-- the level at which the printed form of a node stands: bitwise nodes are printed bare, `-(…)` / `!(…)` are unary
    phrases, everything else is an atom or parenthesised -/
def dlvl : Expr → Nat
  | .bin op _ _ => if isBitwise op then 5 else 9
  | .un .neg _ => 7
  | .un .not _ => 7
  | _ => 9

theorem dlvl_ge5 (e : Expr) : 5 ≤ dlvl e := by
  unfold dlvl; split <;> first | omega | (split <;> omega)

theorem dlvl_noParens {e : Expr} (h : needsParens e = false) : dlvl e = 9 := by
  unfold needsParens at h
  unfold dlvl
  split at h <;> simp_all

section
variable {o : Oracle} {sf : F64 → Str}

/-- a literal leaf whose printed token converts back (`LitOK`) is a rendering of itself -/
theorem body_lit (v : Value) (h : LitOK o sf v) : Body o (.lit v) [litTok sf v] := by
  cases v
  case bool b => cases b <;> simp only [litTok]; exact Body.litFalse; exact Body.litTrue
  case none => exact Body.litNone
  case int n => exact Body.litTok _ _ [] (by simp [litTok, IsLitTok]) h
  case str s => exact Body.litTok _ _ [] (by simp [litTok, IsLitTok]) h
  case float f => exact Body.litTok _ _ [] (by simp [litTok, IsLitTok]) h
  case dec d => exact Body.litTok _ _ [] (by simp [litTok, IsLitTok]) h
  all_goals exact absurd h (by simp [LitOK])

theorem R_wrap {e : Expr} {T : List Tok} (k : Nat) (h : R o 0 e T) : R o k e (wrap T) := R.paren k e T h

/-- an operand printed through the `Operand` wrapper stands at any level -/
theorem R_operand {e : Expr} (k : Nat) (hk : k ≤ 9) (ih : ∀ j, j ≤ dlvl e → R o j e (dispToks sf e)) :
    R o k e (if needsParens e then wrap (dispToks sf e) else dispToks sf e) := by
  cases hp : needsParens e
  · simp only [Bool.false_eq_true, if_false]
    exact ih k (by rw [dlvl_noParens hp]; exact hk)
  · simp only [if_true]
    exact R_wrap k (ih 0 (Nat.zero_le _))

theorem binOpAt_binTok (op : BinOp) (hc : op ≠ .contains) : binOpAt (binLvl op) (binTok op) = some (Expr.bin op) := by
  cases op <;> first | exact absurd rfl hc | (simp [binOpAt, binLvl, binTok, eqOpOf, addOpOf, multOpOf, bitOpOf]; done) | (simp [binOpAt, binLvl, binTok, eqOpOf, addOpOf, multOpOf, bitOpOf]; funext l r; rfl)

theorem binLvl_range (op : BinOp) (hc : op ≠ .contains) : 2 ≤ binLvl op ∧ binLvl op ≤ 5 := by
  cases op <;> first | exact absurd rfl hc | simp [binLvl]

theorem funcOfKw_unKw (op : UnOp) (h1 : op ≠ .neg) (h2 : op ≠ .not) : funcOfKw (unKw op) = some op := by
  cases op <;> first | exact absurd rfl h1 | exact absurd rfl h2 | (simp [funcOfKw, unKw])

theorem disp_sound :
    (∀ e, Printable o sf e → ∀ k, k ≤ dlvl e → R o k e (dispToks sf e)) ∧
    (∀ kvs, PrintableM o sf kvs → RMap o kvs (dispEntries sf kvs)) ∧
    (∀ xs, PrintableL o sf xs → RList o xs (dispList sf xs)) := by
  apply dispToks.mutual_induct
  · -- literal
    intro v hp k hk
    exact R.bare k _ _ hk (by simp only [dispToks]; exact body_lit v (by simpa [Printable] using hp))
  · intro n _ k hk; exact R.bare k _ _ hk (by simp only [dispToks]; exact Body.ref n)
  · intro n _ k hk; exact R.bare k _ _ hk (by simp only [dispToks]; exact Body.sym n)
  · intro f a ih hp k hk
    exact R.bare k _ _ hk (by simp only [dispToks]; exact Body.call f a _ (ih (by simpa [Printable] using hp) 0 (Nat.zero_le _)))
  · -- index
    intro e i ih hp k _
    simp only [dispToks]
    cases i with
    | key key =>
      have hp' : Printable o sf e := by simpa [Printable] using hp
      exact R_wrap k (R.bare 0 _ _ (Nat.zero_le _) (Body.indexKey e _ key (R_operand 8 (by omega) (ih hp'))))
    | pos n =>
      have hp' : Printable o sf e ∧ n ≤ u64Max := by simpa [Printable] using hp
      have hd := (showNat_spec n).1
      have := Body.indexPos (o := o) e _ (Disp.showNat n) (R_operand 8 (by omega) (ih hp'.1)) (by rw [hd]; exact hp'.2)
      rw [hd] at this
      exact R_wrap k (R.bare 0 _ _ (Nat.zero_le _) this)
  · -- if
    intro c t e ihc iht ihe hp k _
    have hp' : Printable o sf c ∧ Printable o sf t ∧ Printable o sf e := by simpa [Printable] using hp
    simp only [dispToks]
    exact R_wrap k (R.bare 0 _ _ (Nat.zero_le _) (Body.ite c t e _ _ _ (ihc hp'.1 0 (Nat.zero_le _)) (iht hp'.2.1 0 (Nat.zero_le _))
      (ihe hp'.2.2 0 (Nat.zero_le _))))
  · -- and
    intro l r ihl ihr hp k _
    have hp' : Printable o sf l ∧ Printable o sf r := by simpa [Printable] using hp
    simp only [dispToks]
    exact R_wrap k (R.bare 0 _ _ (Nat.zero_le _) (Body.bin 1 (.kw ['a', 'n', 'd']) Expr.and l r _ _ (by omega) (by omega) (by simp [binOpAt])
      (ihl hp'.1 1 (by have := dlvl_ge5 l; omega)) (ihr hp'.2 2 (by have := dlvl_ge5 r; omega))))
  · -- or
    intro l r ihl ihr hp k _
    have hp' : Printable o sf l ∧ Printable o sf r := by simpa [Printable] using hp
    simp only [dispToks]
    exact R_wrap k (R.bare 0 _ _ (Nat.zero_le _) (Body.bin 1 (.kw ['o', 'r']) Expr.or l r _ _ (by omega) (by omega) (by simp [binOpAt])
      (ihl hp'.1 1 (by have := dlvl_ge5 l; omega)) (ihr hp'.2 2 (by have := dlvl_ge5 r; omega))))
  · -- ==
    intro l r ihl ihr hp k _
    have hp' : Printable o sf l ∧ Printable o sf r := by simpa [Printable] using hp
    simp only [dispToks]
    exact R_wrap k (R.bare 0 _ _ (Nat.zero_le _) (Body.bin 2 (.p ['=', '=']) (mkEq .eq) l r _ _ (by omega) (by omega) (by simp [binOpAt, eqOpOf])
      (ihl hp'.1 2 (by have := dlvl_ge5 l; omega)) (ihr hp'.2 3 (by have := dlvl_ge5 r; omega))))
  · -- !=
    intro l r ihl ihr hp k _
    have hp' : Printable o sf l ∧ Printable o sf r := by simpa [Printable] using hp
    simp only [dispToks]
    exact R_wrap k (R.bare 0 _ _ (Nat.zero_le _) (Body.bin 2 (.p ['!', '=']) (mkEq .neq) l r _ _ (by omega) (by omega) (by simp [binOpAt, eqOpOf])
      (ihl hp'.1 2 (by have := dlvl_ge5 l; omega)) (ihr hp'.2 3 (by have := dlvl_ge5 r; omega))))
  · -- unary / built-in function
    intro op e ih hp k hk
    have hp' : Printable o sf e := by simpa [Printable] using hp
    have h0 := ih hp' 0 (Nat.zero_le _)
    simp only [dispToks]
    by_cases h1 : op = .neg
    · subst h1; exact R.bare k _ _ hk (Body.neg e _ (R.paren 7 e _ h0))
    · by_cases h2 : op = .not
      · subst h2; exact R.bare k _ _ hk (Body.not e _ (R.paren 7 e _ h0))
      · have ht : unTok op = .kw (unKw op) := by cases op <;> first | rfl | exact absurd rfl h1 | exact absurd rfl h2
        have hl : lvl (.un op e) = 9 := by cases op <;> first | rfl | exact absurd rfl h1 | exact absurd rfl h2
        have hd : dlvl (.un op e) = 9 := by cases op <;> first | rfl | exact absurd rfl h1 | exact absurd rfl h2
        rw [ht]
        exact R.bare k _ _ (by omega) (Body.func (unKw op) op e _ (funcOfKw_unKw op h1 h2) h0)
  · -- bitwise: printed bare
    intro op l r hb ihl ihr hp k hk
    have hp' : Printable o sf l ∧ Printable o sf r := by simpa [Printable] using hp
    have hc : op ≠ .contains := by intro h; subst h; simp [isBitwise] at hb
    have hl5 : binLvl op = 5 := by cases op <;> simp_all [isBitwise, binLvl]
    have hk5 : k ≤ 5 := by simpa [dlvl, hb] using hk
    simp only [dispToks, hb, if_true]
    refine R.bare k _ _ (by simp [lvl, hl5, hk5]) ?_
    have := binOpAt_binTok op hc
    rw [hl5] at this
    exact Body.bin 5 (binTok op) (Expr.bin op) l r _ _ (by omega) (by omega) this
      (ihl hp'.1 5 (dlvl_ge5 l)) (R_operand 6 (by omega) (ihr hp'.2))
  · -- contains
    intro l r _ ihl ihr hp k _
    have hp' : Printable o sf l ∧ Printable o sf r := by simpa [Printable] using hp
    simp only [dispToks, isBitwise, Bool.false_eq_true, if_false, if_true]
    exact R_wrap k (R.bare 0 _ _ (Nat.zero_le _) (Body.contains l r _ _ (R_operand 8 (by omega) (ihl hp'.1)) (R_operand 8 (by omega) (ihr hp'.2))))
  · -- comparison / arithmetic: parenthesised
    intro op l r hb hc ihl ihr hp k _
    have hp' : Printable o sf l ∧ Printable o sf r := by simpa [Printable] using hp
    have hr := binLvl_range op hc
    simp only [dispToks, hb, hc, if_false]
    exact R_wrap k (R.bare 0 _ _ (Nat.zero_le _) (Body.bin (binLvl op) (binTok op) (Expr.bin op) l r _ _ (by omega) hr.2 (binOpAt_binTok op hc)
      (ihl hp'.1 _ (by have := dlvl_ge5 l; omega))
      (by
        by_cases h5 : binLvl op = 5
        · exfalso; cases op <;> simp_all [isBitwise, binLvl]
        · exact ihr hp'.2 _ (by have := dlvl_ge5 r; omega))))
  · -- list
    intro xs ih hp k hk
    simp only [dispToks]
    exact R.bare k _ _ hk (Body.vec xs _ (ih (by simpa [Printable] using hp)))
  · -- map
    intro kvs ih hp k hk
    have hp' : PrintableM o sf kvs ∧ collectMap kvs = kvs := by simpa [Printable] using hp
    simp only [dispToks]
    have := Body.map kvs _ (ih hp'.1)
    rw [hp'.2] at this
    exact R.bare k _ _ hk this
  · intro _; simp only [dispList]; exact RList.nil
  · intro e ih hp
    have hp' : Printable o sf e := by simpa [PrintableL] using hp
    simp only [dispList]; exact RList.last e _ (ih hp' 0 (Nat.zero_le _))
  · intro e e2 es ih ihs hp
    have hp' : Printable o sf e ∧ PrintableL o sf (e2 :: es) := by simpa [PrintableL] using hp
    simp only [dispList]; exact RList.cons e _ _ _ (ih hp'.1 0 (Nat.zero_le _)) (ihs hp'.2)
  · intro _; simp only [dispEntries]; exact RMap.nil
  · intro k e ih hp
    have hp' : Printable o sf e := by simpa [PrintableM] using hp
    simp only [dispEntries]; exact RMap.last k e _ (ih hp' 0 (Nat.zero_le _))
  · intro k e kv2 kvs ih ihs hp
    have hp' : Printable o sf e ∧ PrintableM o sf (kv2 :: kvs) := by simpa [PrintableM] using hp
    simp only [dispEntries]; exact RMap.cons k e _ _ _ (ih hp'.1 0 (Nat.zero_le _)) (ihs hp'.2)

/-- what `Display` prints for a printable tree parses back to exactly that tree -/
theorem display_parse {e : Expr} (h : Printable o sf e) : ∃ f0, ∀ f, f0 ≤ f → pIf o f (dispToks sf e) = .ok e [] :=
  parse_render (disp_sound.1 e h 0 (Nat.zero_le _))

end
end Reval.G
