/-
  Lemmas/Fuel.lean — the fuel of the reference parser is sufficient.
  * `lenAll`: what remains after a successful parse is never longer than the input;
  * `stableAll`: once the fuel is at least `14 * |ts| + a_X` (a constant per parsing function) one more unit of fuel
    does not change the result of any of the thirteen functions — whatever that result is;
  * hence `pIf o f ts = pIf o (parseFuel ts) ts` for every `f ≥ parseFuel ts`: the executable `parseToks`
    is the limit of the fuel-indexed family, and "for every sufficiently large fuel" can be read "for `parseToks`".
-/
import RevalModel.Lemmas.ParserBasic

namespace Reval

def RLen {α : Type} (r : PR α) (ts : List Tok) : Prop := ∀ a rest, r = .ok a rest → rest.length ≤ ts.length

structure LenAll (o : Oracle) (f : Nat) : Prop where
  pIf : ∀ ts, RLen (pIf o f ts) ts
  pBin : ∀ k ts, RLen (pBin o f k ts) ts
  pBinLoop : ∀ k acc ts, RLen (pBinLoop o f k acc ts) ts
  pContains : ∀ ts, RLen (pContains o f ts) ts
  pContainsTail : ∀ ts, RLen (pContainsTail o f ts) ts
  pUnary : ∀ ts, RLen (pUnary o f ts) ts
  pIndex : ∀ ts, RLen (pIndex o f ts) ts
  pIndexLoop : ∀ acc ts, RLen (pIndexLoop o f acc ts) ts
  pTerm : ∀ ts, RLen (pTerm o f ts) ts
  pVecItems : ∀ ts, RLen (pVecItems o f ts) ts
  pMapItems : ∀ ts, RLen (pMapItems o f ts) ts

local macro "len_branches" h:ident : tactic =>
  `(tactic| ((repeat' split at $h:ident) <;> (try (cases $h:ident)) <;>
      (try grind [RLen, List.length_cons])))

theorem lenAll (o : Oracle) : ∀ f, LenAll o f := by
  intro f
  induction f with
  | zero =>
    constructor <;> intros <;> intro a rest h <;> simp [Reval.pIf, Reval.pBin, Reval.pBinLoop, Reval.pContains,
      Reval.pContainsTail, Reval.pUnary, Reval.pIndex, Reval.pIndexLoop, Reval.pTerm, Reval.pVecItems, Reval.pMapItems] at h
  | succ f ih =>
    have h1 := ih.pIf; have h2 := ih.pBin; have h3 := ih.pBinLoop; have h4 := ih.pContains
    have h5 := ih.pContainsTail; have h6 := ih.pUnary; have h7 := ih.pIndex; have h8 := ih.pIndexLoop
    have h9 := ih.pTerm; have h10 := ih.pVecItems; have h11 := ih.pMapItems
    constructor
    · intro ts a rest h; simp only [Reval.pIf] at h; len_branches h
    · intro k ts a rest h; simp only [Reval.pBin] at h; len_branches h
    · intro k acc ts a rest h; simp only [Reval.pBinLoop] at h; len_branches h
    · intro ts a rest h; simp only [Reval.pContains] at h; len_branches h
    · intro ts a rest h; simp only [Reval.pContainsTail] at h; len_branches h
    · intro ts a rest h; simp only [Reval.pUnary] at h; len_branches h
    · intro ts a rest h; simp only [Reval.pIndex] at h; len_branches h
    · intro acc ts a rest h; simp only [Reval.pIndexLoop] at h; len_branches h
    · intro ts a rest h; simp only [Reval.pTerm] at h; len_branches h
    · intro ts a rest h; simp only [Reval.pVecItems] at h; len_branches h
    · intro ts a rest h; simp only [Reval.pMapItems] at h; len_branches h


/-- one more unit of fuel changes nothing once the fuel exceeds `14 * |ts| + a_X` -/
structure StableAll (o : Oracle) (f : Nat) : Prop where
  pIf : ∀ ts, 14 * ts.length + 11 ≤ f → pIf o (f+1) ts = pIf o f ts
  pBin : ∀ k ts, 14 * ts.length + 5 + (6 - k) ≤ f → pBin o (f+1) k ts = pBin o f k ts
  pBinLoop : ∀ k acc ts, 14 * ts.length + 1 ≤ f → pBinLoop o (f+1) k acc ts = pBinLoop o f k acc ts
  pContains : ∀ ts, 14 * ts.length + 4 ≤ f → pContains o (f+1) ts = pContains o f ts
  pContainsTail : ∀ ts, 14 * ts.length + 3 ≤ f → pContainsTail o (f+1) ts = pContainsTail o f ts
  pUnary : ∀ ts, 14 * ts.length + 3 ≤ f → pUnary o (f+1) ts = pUnary o f ts
  pIndex : ∀ ts, 14 * ts.length + 2 ≤ f → pIndex o (f+1) ts = pIndex o f ts
  pIndexLoop : ∀ acc ts, 14 * ts.length + 1 ≤ f → pIndexLoop o (f+1) acc ts = pIndexLoop o f acc ts
  pTerm : ∀ ts, 14 * ts.length + 1 ≤ f → pTerm o (f+1) ts = pTerm o f ts
  pVecItems : ∀ ts, 14 * ts.length + 12 ≤ f → pVecItems o (f+1) ts = pVecItems o f ts
  pMapItems : ∀ ts, 14 * ts.length + 1 ≤ f → pMapItems o (f+1) ts = pMapItems o f ts


set_option maxHeartbeats 1000000 in
theorem stab_pTerm (o : Oracle) (f : Nat)
    (h1 : ∀ ts, 14 * ts.length + 11 ≤ f → pIf o (f+1) ts = pIf o f ts)
    (h10 : ∀ ts, 14 * ts.length + 12 ≤ f → pVecItems o (f+1) ts = pVecItems o f ts)
    (h11 : ∀ ts, 14 * ts.length + 1 ≤ f → pMapItems o (f+1) ts = pMapItems o f ts)
    (ts : List Tok) (hb : 14 * ts.length + 1 ≤ f + 1) : pTerm o (f+1+1) ts = pTerm o (f+1) ts := by
  generalize hr : Reval.pTerm o (f+1) ts = res; simp only [Reval.pTerm] at hr
  conv => lhs; rw [Reval.pTerm.eq_def]; simp only []
  (repeat' split at hr) <;> (try subst hr) <;> (try simp only [*, ↓reduceIte]) <;> grind [RLen, List.length_cons]

local macro "stab_branches" hr:ident : tactic =>
  `(tactic| ((repeat' split at $hr:ident) <;> (try subst $hr:ident) <;> grind [RLen, List.length_cons]))

theorem stableAll (o : Oracle) : ∀ f, StableAll o f := by
  intro f
  induction f with
  | zero => constructor <;> intros <;> omega
  | succ f ih =>
    have l := lenAll o f
    have l1 := l.pIf; have l2 := l.pBin; have l3 := l.pBinLoop; have l4 := l.pContains
    have l5 := l.pContainsTail; have l6 := l.pUnary; have l7 := l.pIndex; have l8 := l.pIndexLoop
    have l9 := l.pTerm; have l10 := l.pVecItems; have l11 := l.pMapItems
    have h1 := ih.pIf; have h2 := ih.pBin; have h3 := ih.pBinLoop; have h4 := ih.pContains
    have h5 := ih.pContainsTail; have h6 := ih.pUnary; have h7 := ih.pIndex; have h8 := ih.pIndexLoop
    have h9 := ih.pTerm; have h10 := ih.pVecItems; have h11 := ih.pMapItems
    constructor
    · intro ts hb; generalize hr : Reval.pIf o (f+1) ts = res; simp only [Reval.pIf] at hr
      conv => lhs; rw [Reval.pIf.eq_def]; simp only []
      stab_branches hr
    · intro k ts hb; generalize hr : Reval.pBin o (f+1) k ts = res; simp only [Reval.pBin] at hr
      conv => lhs; rw [Reval.pBin.eq_def]; simp only []
      stab_branches hr
    · intro k acc ts hb; generalize hr : Reval.pBinLoop o (f+1) k acc ts = res; simp only [Reval.pBinLoop] at hr
      conv => lhs; rw [Reval.pBinLoop.eq_def]; simp only []
      stab_branches hr
    · intro ts hb; generalize hr : Reval.pContains o (f+1) ts = res; simp only [Reval.pContains] at hr
      conv => lhs; rw [Reval.pContains.eq_def]; simp only []
      stab_branches hr
    · intro ts hb; generalize hr : Reval.pContainsTail o (f+1) ts = res; simp only [Reval.pContainsTail] at hr
      conv => lhs; rw [Reval.pContainsTail.eq_def]; simp only []
      stab_branches hr
    · intro ts hb; generalize hr : Reval.pUnary o (f+1) ts = res; simp only [Reval.pUnary] at hr
      conv => lhs; rw [Reval.pUnary.eq_def]; simp only []
      stab_branches hr
    · intro ts hb; generalize hr : Reval.pIndex o (f+1) ts = res; simp only [Reval.pIndex] at hr
      conv => lhs; rw [Reval.pIndex.eq_def]; simp only []
      stab_branches hr
    · intro acc ts hb; generalize hr : Reval.pIndexLoop o (f+1) acc ts = res; simp only [Reval.pIndexLoop] at hr
      conv => lhs; rw [Reval.pIndexLoop.eq_def]; simp only []
      stab_branches hr
    · intro ts hb; exact stab_pTerm o f h1 h10 h11 ts hb
    · intro ts hb; generalize hr : Reval.pVecItems o (f+1) ts = res; simp only [Reval.pVecItems] at hr
      conv => lhs; rw [Reval.pVecItems.eq_def]; simp only []
      stab_branches hr
    · intro ts hb; generalize hr : Reval.pMapItems o (f+1) ts = res; simp only [Reval.pMapItems] at hr
      conv => lhs; rw [Reval.pMapItems.eq_def]; simp only []
      stab_branches hr

/-- every fuel from `parseFuel ts` on gives the result of `parseFuel ts` -/
theorem pIf_fuel_enough (o : Oracle) (ts : List Tok) : ∀ f, parseFuel ts ≤ f → pIf o f ts = pIf o (parseFuel ts) ts := by
  have key : ∀ d, pIf o (parseFuel ts + d) ts = pIf o (parseFuel ts) ts := by
    intro d
    induction d with
    | zero => rfl
    | succ d ih =>
      rw [← ih]
      exact (stableAll o (parseFuel ts + d)).pIf ts (by simp only [parseFuel]; omega)
  intro f hf
  have := key (f - parseFuel ts)
  rwa [Nat.add_sub_cancel' hf] at this

/-- "eventually, at every large enough fuel" is "at the fuel `parseToks` uses" -/
theorem eventually_iff_parseFuel (o : Oracle) (ts : List Tok) (r : PR Expr) :
    (∃ f0, ∀ f, f0 ≤ f → pIf o f ts = r) ↔ pIf o (parseFuel ts) ts = r := by
  constructor
  · intro ⟨f0, h⟩
    have := h (max f0 (parseFuel ts)) (Nat.le_max_left _ _)
    rw [pIf_fuel_enough o ts _ (Nat.le_max_right _ _)] at this
    exact this
  · intro h
    exact ⟨parseFuel ts, fun f hf => by rw [pIf_fuel_enough o ts f hf, h]⟩

end Reval
