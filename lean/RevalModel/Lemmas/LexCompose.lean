/-
  Lemmas/LexCompose.lean — the lexer is compositional on printed text: a token's text followed by a character that
  cannot extend it lexes to that token and leaves the rest (`step_word`, `step_punct1`, `step_int`, `step_index`,
  `step_string`, `step_space`), so the text `Display` writes lexes to exactly the token list `G.dispToks`
  (`lex_showExpr`).  `Lexes s ts` = "at every fuel from `|s| + 1` on", hence `lex s = some ts`.
-/
import RevalModel.Lemmas.LexerBasic
import RevalModel.Lemmas.Literals
import RevalModel.Spec.Printer

namespace Reval.LexC
open Reval Reval.Lex

/-- `s` lexes to `ts` at every fuel from `|s| + 1` on (so `lex s = some ts`) -/
def Lexes (s : Str) (ts : List Tok) : Prop := ∀ f, s.length + 1 ≤ f → lexAux f s = some ts

theorem Lexes.nil : Lexes [] [] := fun f _ => lexAux_nil f
theorem Lexes.lex {s : Str} {ts : List Tok} (h : Lexes s ts) : lex s = some ts := h _ (Nat.le_refl _)

theorem Lexes.tok {w r : Str} {t : Tok} {T : List Tok} (hw : w ≠ []) (hs : step (w ++ r) = some (some t, r))
    (h : Lexes r T) : Lexes (w ++ r) (t :: T) := by
  intro f hf
  cases w with
  | nil => exact absurd rfl hw
  | cons c cs =>
    cases f with
    | zero => simp at hf
    | succ f =>
      have := lexAux_succ_tok f c (cs ++ r) r t (by simpa using hs)
      simp only [List.cons_append] at *
      rw [this, h f (by simp at hf; omega)]
      rfl

theorem Lexes.skip {w r : Str} {T : List Tok} (hw : w ≠ []) (hs : step (w ++ r) = some (none, r))
    (h : Lexes r T) : Lexes (w ++ r) T := by
  intro f hf
  cases w with
  | nil => exact absurd rfl hw
  | cons c cs =>
    cases f with
    | zero => simp at hf
    | succ f =>
      have := lexAux_succ_skip f c (cs ++ r) r (by simpa using hs)
      simp only [List.cons_append] at *
      rw [this, h f (by simp at hf; omega)]

theorem char_le_iff (a b : Char) : a ≤ b ↔ a.toNat ≤ b.toNat := by
  rw [Char.le_def]; exact UInt32.le_iff_toNat_le

theorem alpha_range {c : Char} (h : isAlpha c = true) : (97 ≤ c.toNat ∧ c.toNat ≤ 122) ∨ (65 ≤ c.toNat ∧ c.toNat ≤ 90) := by
  simp only [isAlpha, Bool.or_eq_true, Bool.and_eq_true, decide_eq_true_eq, char_le_iff] at h
  exact h

theorem digit_range {c : Char} (h : isDigit c = true) : 48 ≤ c.toNat ∧ c.toNat ≤ 57 := by
  simp only [isDigit, Bool.and_eq_true, decide_eq_true_eq, char_le_iff] at h
  exact h

/-- an identifier character is a letter, a digit or `_`: its code is at least 48 and it is none of the
    punctuation / layout characters -/
theorem idc_range {c : Char} (h : isIdc c = true) : 48 ≤ c.toNat ∧ c.toNat ≤ 122 := by
  simp only [isIdc, Bool.or_eq_true, beq_iff_eq] at h
  rcases h with (h | h) | h
  · rcases alpha_range h with ⟨a, b⟩ | ⟨a, b⟩ <;> omega
  · have := digit_range h; omega
  · subst h; decide

theorem toNat_ne {c d : Char} (h : c.toNat ≠ d.toNat) : c ≠ d := fun e => h (e ▸ rfl)

theorem alpha_not_white {c : Char} (h : isAlpha c = true) : Str.isWhite c = false := by
  have := alpha_range h
  simp only [Str.isWhite]
  rcases this with ⟨a, b⟩ | ⟨a, b⟩ <;> simp <;> omega

theorem countWhile_append (p : Char → Bool) (w r : Str) (hw : w.all p = true) (hr : ∀ c r', r = c :: r' → p c = false) :
    countWhile p (w ++ r) = w.length := by
  induction w with
  | nil =>
    cases r with
    | nil => rfl
    | cons c r' => simp [countWhile, hr c r' rfl]
  | cons a w ih =>
    simp only [List.all_cons, Bool.and_eq_true] at hw
    simp [countWhile, hw.1, ih hw.2]

def folChars : List Char := [')', ' ', ',', ']', '}', '(', ':']
def Fol (dot : Bool) : Str → Prop
  | [] => True
  | c :: _ => c ∈ folChars ∨ (dot = true ∧ c = '.')

theorem Fol.notIdc {dot : Bool} {r : Str} (h : Fol dot r) : ∀ c r', r = c :: r' → isIdc c = false := by
  intro c r' e; subst e
  simp only [Fol, folChars, List.mem_cons, List.not_mem_nil, or_false] at h
  rcases h with (rfl | rfl | rfl | rfl | rfl | rfl | rfl) | ⟨_, rfl⟩ <;> decide

/-- the token a word denotes -/
def wordOf (w : Str) : Tok := if keywords.contains w then .kw w else .ident w

/-- no numeric literal `i… / f… / d…` starts at a word whose second character is not a digit and which is not
    followed by a sign, a digit or (for `f`, `d` alone) a dot -/
theorem matchNum_none (c : Char) (rest r : Str) (dot : Bool) (hrest : rest.all isIdc = true)
    (hnum : (c = 'i' ∨ c = 'f' ∨ c = 'd') → ∀ a rest', rest = a :: rest' → isDigit a = false)
    (hdot : dot = true → rest = [] → c ≠ 'f' ∧ c ≠ 'd') (hr : Fol dot r) :
    (if (c == 'i' || c == 'f' || c == 'd') = true then matchNum c (rest ++ r) else none) = none := by
  split
  case isFalse => rfl
  rename_i hg
  cases rest with
  | nil =>
    cases r with
    | nil => simp [matchNum, matchFrac, countWhile]
    | cons h r' =>
      simp only [Fol, folChars, List.mem_cons, List.not_mem_nil, or_false] at hr
      rcases hr with (rfl | rfl | rfl | rfl | rfl | rfl | rfl) | ⟨hd, rfl⟩
      all_goals first
        | (simp [matchNum, matchFrac, countWhile, isDigit]; done)
        | (have := hdot hd rfl
           simp only [Bool.or_eq_true, beq_iff_eq] at hg
           have hi : c = 'i' := by rcases hg with (h | h) | h <;> simp_all
           subst hi
           simp [matchNum, matchFrac, countWhile, isDigit])
  | cons a rest' =>
    simp only [List.all_cons, Bool.and_eq_true] at hrest
    have hd := hnum (by simpa only [Bool.or_eq_true, beq_iff_eq, or_assoc] using hg) a rest' rfl
    have hr := idc_range hrest.1
    have h1 : a ≠ '+' := toNat_ne (by simp; omega)
    have h2 : a ≠ '-' := toNat_ne (by simp; omega)
    have h3 : a ≠ '.' := toNat_ne (by simp; omega)
    simp only [matchNum, List.cons_append]
    split <;> simp_all [matchFrac, countWhile]

theorem stepWord_word_old (c : Char) (rest r : Str) (dot : Bool) (hrest : rest.all isIdc = true)
    (hnum : (c = 'i' ∨ c = 'f' ∨ c = 'd') → ∀ a rest', rest = a :: rest' → isDigit a = false)
    (hdot : dot = true → rest = [] → c ≠ 'f' ∧ c ≠ 'd') (hr : Fol dot r) :
    stepWord c (rest ++ r) = (wordOf (c :: rest), r) := by
  have hcw := countWhile_append isIdc rest r hrest hr.notIdc
  simp only [stepWord, matchNum_none c rest r dot hrest hnum hdot hr, wordTok, wordOf, hcw, List.take_left', List.drop_left']


theorem countWhile_le (p : Char → Bool) (x : Str) : countWhile p x ≤ x.length := by
  induction x with
  | nil => simp [countWhile]
  | cons a x ih => simp only [countWhile]; split <;> simp <;> omega

theorem countWhile_stop (p : Char → Bool) (x r : Str) (h : countWhile p x < x.length) :
    countWhile p (x ++ r) = countWhile p x := by
  induction x with
  | nil => simp at h
  | cons a x ih =>
    simp only [countWhile, List.cons_append] at *
    split
    · rename_i hp; simp only [hp, if_true, List.length_cons] at h; rw [ih (by omega)]
    · rfl

theorem countWhile_full (p : Char → Bool) (x r : Str) (h : countWhile p x = x.length) :
    countWhile p (x ++ r) = x.length + countWhile p r := by
  induction x with
  | nil => simp
  | cons a x ih =>
    simp only [countWhile, List.cons_append] at *
    split
    · rename_i hp; simp only [hp, if_true, List.length_cons] at h; rw [ih (by omega)]; simp; omega
    · rename_i hp; simp [hp] at h

theorem drop_countWhile (p : Char → Bool) (x : Str) (h : countWhile p x < x.length) :
    ∃ t tl, x.drop (countWhile p x) = t :: tl ∧ p t = false := by
  induction x with
  | nil => simp at h
  | cons a x ih =>
    simp only [countWhile] at *
    split
    · rename_i hp; simp only [hp, if_true, List.length_cons] at h
      simpa using ih (by omega)
    · rename_i hp; exact ⟨a, x, rfl, by simpa using hp⟩


/-- followers that cannot extend a numeric literal past the end of a word: not an identifier character (so not a
    digit), not a sign -/
def FolG (r : Str) : Prop := ∀ x r', r = x :: r' → isIdc x = false ∧ x ≠ '+' ∧ x ≠ '-'

theorem FolG.digits {r : Str} (h : FolG r) : countWhile isDigit r = 0 := by
  cases r with
  | nil => rfl
  | cons x r' =>
    have := (h x r' rfl).1
    have hd : isDigit x = false := by
      cases hx : isDigit x
      · rfl
      · simp [isIdc, hx] at this
    simp [countWhile, hd]

theorem matchFrac_ge (s : Str) (h : 0 < countWhile isDigit s) : ∃ b, matchFrac s = some b ∧ countWhile isDigit s ≤ b := by
  simp only [matchFrac]
  split
  · split
    · exact ⟨_, rfl, by omega⟩
    · exact ⟨_, by simp, Nat.le_refl _⟩
  · exact ⟨_, by simp [h], Nat.le_refl _⟩

theorem matchFrac_stop (x r : Str) (h0 : 0 < countWhile isDigit x) (h : countWhile isDigit x < x.length) (hx : x.all isIdc = true) :
    matchFrac (x ++ r) = some (countWhile isDigit x) := by
  obtain ⟨t, tl, hd, ht⟩ := drop_countWhile isDigit x h
  have hidc : isIdc t = true := by
    have : t ∈ x := List.mem_of_mem_drop (hd ▸ List.mem_cons_self)
    exact List.all_eq_true.mp hx t this
  have h3 : t ≠ '.' := toNat_ne (by have := idc_range hidc; simp; omega)
  simp only [matchFrac, countWhile_stop isDigit x r h, List.drop_append_of_le_length (Nat.le_of_lt h), hd, List.cons_append]
  split
  · rename_i heq; simp only [List.cons.injEq] at heq; exact absurd heq.1 h3
  · simp [h0]


theorem matchExp_nosign (c u : Char) (rest : Str) (h1 : u ≠ '+') (h2 : u ≠ '-') :
    matchExp (c :: u :: rest) = if (c == 'e' || c == 'E') = true then
      (if countWhile isDigit (u :: rest) > 0 then 1 + countWhile isDigit (u :: rest) else 0) else 0 := by
  simp only [matchExp]
  split
  · split
    · rename_i heq; simp only [List.cons.injEq] at heq; exact absurd heq.1 h1
    · rename_i heq; simp only [List.cons.injEq] at heq; exact absurd heq.1 h2
    · simp
  · rfl

theorem matchExp_single (c : Char) : matchExp [c] = 0 := by
  simp only [matchExp]
  split
  · simp [countWhile]
  · rfl


theorem matchNum_digit (c a : Char) (y : Str) (ha : isDigit a = true) :
    matchNum c (a :: y) = if (c == 'i') = true then some (countWhile isDigit (a :: y))
      else (matchFrac (a :: y)).bind (fun b => if (c == 'f') = true then some (b + matchExp ((a :: y).drop b)) else some b) := by
  have hr := digit_range ha
  have h1 : a ≠ '+' := toNat_ne (by simp; omega)
  have h2 : a ≠ '-' := toNat_ne (by simp; omega)
  have hsg : (match a :: y with | '+' :: _ => 1 | '-' :: _ => 1 | _ => 0) = 0 := by
    split <;> simp_all
  unfold matchNum
  simp only []
  cases hf : matchFrac (a :: y) <;> (repeat' split) <;> simp_all [countWhile]


/-- **follower independence**: a word `c · x` (x beginning with a digit) that the lexer took for an identifier in front
    of SOME follower — the numeric literal starting at `c` ends inside the word — is an identifier in front of every
    follower that is neither an identifier character nor a sign -/
theorem matchNum_short (c a : Char) (w r0 r : Str) (hw : (a :: w).all isIdc = true) (ha : isDigit a = true)
    (h0 : ∀ m, matchNum c (a :: w ++ r0) = some m → m < (a :: w).length) (hr : FolG r) :
    ∀ m, matchNum c (a :: w ++ r) = some m → m < (a :: w).length := by
  have hk0 : 0 < countWhile isDigit (a :: w) := by simp [countWhile, ha]
  have hle := countWhile_le isDigit (a :: w)
  -- all digits: with the original follower the literal covers the whole word — excluded
  by_cases hall : countWhile isDigit (a :: w) = (a :: w).length
  · exfalso
    have hf := countWhile_full isDigit (a :: w) r0 hall
    have h0' := h0
    simp only [List.cons_append, matchNum_digit c a (w ++ r0) ha] at h0'
    simp only [List.cons_append] at hf
    by_cases hi : (c == 'i') = true
    · simp only [hi, if_true] at h0'
      have := h0' _ rfl
      rw [hf] at this; omega
    · simp only [hi] at h0'
      obtain ⟨b, hb, hge⟩ := matchFrac_ge (a :: (w ++ r0)) (by rw [hf]; omega)
      rw [hb] at h0'
      simp only [Option.bind_some] at h0'
      rw [hf] at hge
      by_cases hfl : (c == 'f') = true
      · simp only [hfl, if_true] at h0'
        have := h0' _ rfl; omega
      · simp only [hfl] at h0'
        have := h0' _ rfl; omega
  · have hlt : countWhile isDigit (a :: w) < (a :: w).length := by omega
    intro m hm
    simp only [List.cons_append, matchNum_digit c a (w ++ r) ha] at hm
    have hstop := countWhile_stop isDigit (a :: w) r hlt
    have hfrac := matchFrac_stop (a :: w) r hk0 hlt hw
    simp only [List.cons_append] at hstop hfrac
    by_cases hi : (c == 'i') = true
    · simp only [hi, ↓reduceIte, hstop, Option.some.injEq] at hm
      omega
    · simp only [hi, Bool.false_eq_true, ↓reduceIte, hfrac, Option.bind_some] at hm
      by_cases hfl : (c == 'f') = true
      · simp only [hfl, ↓reduceIte, Option.some.injEq] at hm
        -- the exponent part
        obtain ⟨t, tl, hd, ht⟩ := drop_countWhile isDigit (a :: w) hlt
        have hdrop : (a :: (w ++ r)).drop (countWhile isDigit (a :: w)) = t :: (tl ++ r) := by
          have := List.drop_append_of_le_length (l₂ := r) (Nat.le_of_lt hlt)
          simp only [List.cons_append] at this
          rw [this, hd]; rfl
        have hlen : (a :: w).length = countWhile isDigit (a :: w) + 1 + tl.length := by
          have := congrArg List.length hd
          simp only [List.length_drop, List.length_cons] at this
          simp only [List.length_cons]; omega
        have htl : tl.all isIdc = true := by
          simp only [List.all_eq_true] at hw ⊢
          intro x hx
          exact hw x (List.mem_of_mem_drop (hd ▸ List.mem_cons_of_mem _ hx))
        rw [hdrop] at hm
        cases tl with
        | nil =>
          cases r with
          | nil => simp only [List.append_nil, matchExp_single] at hm; omega
          | cons x r' =>
            have hx := hr x r' rfl
            rw [List.nil_append, matchExp_nosign t x r' hx.2.1 hx.2.2] at hm
            have := hr.digits
            rw [this] at hm
            simp at hm; omega
        | cons u tl' =>
          simp only [List.all_cons, Bool.and_eq_true] at htl
          have hur := idc_range htl.1
          have hu1 : u ≠ '+' := toNat_ne (by simp; omega)
          have hu2 : u ≠ '-' := toNat_ne (by simp; omega)
          rw [List.cons_append, matchExp_nosign t u (tl' ++ r) hu1 hu2] at hm
          by_cases hall2 : countWhile isDigit (u :: tl') = (u :: tl').length
          · -- `e` + digits up to the end of the word: with the original follower the literal covers the word
            by_cases hte : (t == 'e' || t == 'E') = true
            · exfalso
              have h0' := h0
              simp only [List.cons_append, matchNum_digit c a (w ++ r0) ha] at h0'
              have hstop0 := countWhile_stop isDigit (a :: w) r0 hlt
              have hfrac0 := matchFrac_stop (a :: w) r0 hk0 hlt hw
              simp only [List.cons_append] at hstop0 hfrac0
              simp only [hi, hfrac0, Option.bind_some, hfl, if_true] at h0'
              have hdrop0 : (a :: (w ++ r0)).drop (countWhile isDigit (a :: w)) = t :: u :: (tl' ++ r0) := by
                have := List.drop_append_of_le_length (l₂ := r0) (Nat.le_of_lt hlt)
                simp only [List.cons_append] at this
                rw [this, hd]; rfl
              rw [hdrop0, matchExp_nosign t u (tl' ++ r0) hu1 hu2] at h0'
              have hf2 := countWhile_full isDigit (u :: tl') r0 hall2
              simp only [List.cons_append] at hf2
              simp only [hte, if_true, hf2] at h0'
              have := h0' _ rfl
              simp only [List.length_cons] at this hlen
              split at this <;> omega
            · simp only [hte] at hm
              simp at hm; omega
          · have hlt2 : countWhile isDigit (u :: tl') < (u :: tl').length := by
              have := countWhile_le isDigit (u :: tl'); omega
            have hs2 := countWhile_stop isDigit (u :: tl') r hlt2
            simp only [List.cons_append] at hs2
            rw [hs2] at hm
            simp only [List.length_cons] at hlt2 hlen
            split at hm <;> (try split at hm) <;> simp only [List.length_cons] <;> omega
      · simp only [hfl, Bool.false_eq_true, ↓reduceIte, Option.some.injEq] at hm
        omega


/-- the word `c · rest` is not taken for a numeric literal `i… / f… / d…`: either its second character is not a digit
    (no literal starts), or the lexer itself, in front of some follower `r0`, found the literal to end inside the
    word (`i5x`, `f5e`, `d1_a`: what an identifier token produced by the lexer satisfies) -/
def NumFree (c : Char) (rest : Str) : Prop :=
  (c = 'i' ∨ c = 'f' ∨ c = 'd') → (∀ a rest', rest = a :: rest' → isDigit a = false) ∨
    (∃ a w r0, rest = a :: w ∧ isDigit a = true ∧ ∀ m, matchNum c (rest ++ r0) = some m → m < rest.length)

theorem NumFree.old {c : Char} {rest : Str}
    (h : (c = 'i' ∨ c = 'f' ∨ c = 'd') → ∀ a rest', rest = a :: rest' → isDigit a = false) : NumFree c rest :=
  fun hc => Or.inl (h hc)

/-- a word followed by a character that is neither an identifier character nor a sign, the numeric literal (if any)
    ending inside the word: the word is the token -/
theorem stepWord_short (c a : Char) (w r0 r : Str) (hrest : (a :: w).all isIdc = true) (ha : isDigit a = true)
    (h0 : ∀ m, matchNum c (a :: w ++ r0) = some m → m < (a :: w).length) (hr : FolG r) :
    stepWord c (a :: w ++ r) = (wordOf (c :: a :: w), r) := by
  have hcw := countWhile_append isIdc (a :: w) r hrest (fun x r' e => (hr x r' e).1)
  have hs := matchNum_short c a w r0 r hrest ha h0 hr
  simp only [stepWord, wordTok, wordOf, hcw, List.take_left', List.drop_left']
  split
  · rename_i n hn
    have : matchNum c (a :: w ++ r) = some n := by
      split at hn
      · exact hn
      · cases hn
    have := hs n this
    rw [if_neg (by omega)]
  · rfl

theorem Fol.folG {dot : Bool} {r : Str} (h : Fol dot r) : FolG r := by
  intro x r' e; subst e
  simp only [Fol, folChars, List.mem_cons, List.not_mem_nil, or_false] at h
  rcases h with (rfl | rfl | rfl | rfl | rfl | rfl | rfl) | ⟨_, rfl⟩ <;> decide

theorem stepWord_word (c : Char) (rest r : Str) (dot : Bool) (hrest : rest.all isIdc = true)
    (hnum : NumFree c rest)
    (hdot : dot = true → rest = [] → c ≠ 'f' ∧ c ≠ 'd') (hr : Fol dot r) :
    stepWord c (rest ++ r) = (wordOf (c :: rest), r) := by
  by_cases hg : c = 'i' ∨ c = 'f' ∨ c = 'd'
  · rcases hnum hg with hold | ⟨a, w, r0, rfl, ha, h0⟩
    · exact stepWord_word_old c rest r dot hrest (fun _ => hold) hdot hr
    · exact stepWord_short c a w r0 r hrest ha h0 hr.folG
  · exact stepWord_word_old c rest r dot hrest (fun h => absurd h hg) hdot hr

theorem step_word (c : Char) (rest r : Str) (dot : Bool) (hc : isAlpha c = true) (hrest : rest.all isIdc = true)
    (hnum : NumFree c rest)
    (hdot : dot = true → rest = [] → c ≠ 'f' ∧ c ≠ 'd') (hr : Fol dot r) :
    step (c :: rest ++ r) = some (some (wordOf (c :: rest)), r) := by
  have h1 := alpha_not_white hc
  have h2 : c ≠ '/' := toNat_ne (by rcases alpha_range hc with ⟨a, b⟩ | ⟨a, b⟩ <;> simp <;> omega)
  simp only [List.cons_append, step, h1, hc, stepWord_word c rest r dot hrest hnum hdot hr]
  simp [h2]


theorem isDigit_eq (c : Char) : Str.isDigit c = Lex.isDigit c := rfl

theorem digit_idc {c : Char} (h : isDigit c = true) : isIdc c = true := by simp [isIdc, h]

theorem all_digit_idc {ds : Str} (h : ds.all isDigit = true) : ds.all isIdc = true := by
  simp only [List.all_eq_true] at *
  exact fun c hc => digit_idc (h c hc)

/-- a space before a non-white character is skipped, alone -/
theorem step_space (r : Str) (hr : ∀ c r', r = c :: r' → Str.isWhite c = false) : step (' ' :: r) = some (none, r) := by
  have : r.dropWhile Str.isWhite = r := by
    cases r with
    | nil => rfl
    | cons c r' => simp [List.dropWhile, hr c r' rfl]
  simp [step, Str.isWhite, this]

/-- the single-character punctuation the printer writes -/
def p1Chars : List Char := ['(', ')', '[', ']', '{', '}', ',', ':', '.', '!', '-', '+', '*', '/', '%', '&', '|', '^', '>', '<']

theorem step_punct1 (c : Char) (r : Str) (hc : c ∈ p1Chars) (hr : ∀ d r', r = d :: r' → d ≠ '=' ∧ d ≠ '/') :
    step (c :: r) = some (some (.p [c]), r) := by
  simp only [p1Chars, List.mem_cons, List.not_mem_nil, or_false] at hc
  cases r with
  | nil =>
    rcases hc with rfl | rfl | rfl | rfl | rfl | rfl | rfl | rfl | rfl | rfl | rfl | rfl | rfl | rfl | rfl | rfl | rfl | rfl | rfl | rfl <;>
      simp [step, stepPunct, punct1, Str.isWhite, isAlpha, isDigit]
  | cons d r' =>
    have := hr d r' rfl
    rcases hc with rfl | rfl | rfl | rfl | rfl | rfl | rfl | rfl | rfl | rfl | rfl | rfl | rfl | rfl | rfl | rfl | rfl | rfl | rfl | rfl <;>
      simp [step, stepPunct, punct1, punct2, Str.isWhite, isAlpha, isDigit, this.1, this.2]

/-- the two-character operators -/
theorem step_punct2 (c : Char) (r : Str) (hc : c ∈ ['=', '!', '>', '<']) : step (c :: '=' :: r) = some (some (.p [c, '=']), r) := by
  simp only [List.mem_cons, List.not_mem_nil, or_false] at hc
  rcases hc with rfl | rfl | rfl | rfl <;> simp [step, stepPunct, punct2, Str.isWhite, isAlpha, isDigit]

/-! ### literals -/

theorem digit_not_sign {a : Char} (h : isDigit a = true) : a ≠ '+' ∧ a ≠ '-' ∧ a ≠ '/' ∧ a ≠ '"' := by
  have := digit_range h
  refine ⟨toNat_ne ?_, toNat_ne ?_, toNat_ne ?_, toNat_ne ?_⟩ <;> simp <;> omega

theorem digit_not_alpha_white {a : Char} (h : isDigit a = true) : isAlpha a = false ∧ Str.isWhite a = false := by
  have := digit_range h
  constructor
  · simp only [isAlpha, Bool.or_eq_false_iff, Bool.and_eq_false_iff, decide_eq_false_iff_not, char_le_iff]
    constructor <;> (simp; omega)
  · simp only [Str.isWhite]; simp; omega

theorem Fol.notDigit {dot : Bool} {r : Str} (h : Fol dot r) : ∀ c r', r = c :: r' → isDigit c = false := by
  intro c r' e
  have := h.notIdc c r' e
  cases hd : isDigit c
  · rfl
  · rw [digit_idc hd] at this; cases this

/-- `i<digits>` / `i-<digits>` followed by something that is neither an identifier character nor a sign -/
theorem step_int (D r : Str) (neg : Bool) (dot : Bool) (hD : D.all isDigit = true) (hne : D ≠ []) (hr : Fol dot r) :
    step ('i' :: (if neg then '-' :: D else D) ++ r) = some (some (.int ('i' :: (if neg then '-' :: D else D))), r) := by
  have hk := countWhile_append isDigit D r hD hr.notDigit
  have hpos : 0 < D.length := by cases D <;> simp_all
  cases neg with
  | true =>
    simp only [if_true, List.cons_append]
    have hm : matchNum 'i' ('-' :: (D ++ r)) = some (1 + D.length) := by
      simp [matchNum, hk, hpos]
    simp [step, Str.isWhite, isAlpha, stepWord, hm, countWhile, isIdc, isDigit, mkNum, List.take_left', List.drop_left',
      List.take_succ_cons, Nat.add_comm]
  | false =>
    simp only [Bool.false_eq_true, if_false]
    obtain ⟨a, D', rfl⟩ : ∃ a D', D = a :: D' := by cases D with | nil => exact absurd rfl hne | cons a D' => exact ⟨a, D', rfl⟩
    simp only [List.all_cons, Bool.and_eq_true] at hD
    have hs := digit_not_sign hD.1
    have hm : matchNum 'i' (a :: D' ++ r) = some (D'.length + 1) := by
      have : countWhile isDigit (a :: (D' ++ r)) = D'.length + 1 := by simpa using hk
      simp [matchNum, hs.1, hs.2.1, this]
    have hi := countWhile_append isIdc (a :: D') r (all_digit_idc (by simp [hD.1, hD.2])) hr.notIdc
    have hi' : countWhile isIdc (a :: (D' ++ r)) = D'.length + 1 := by simpa using hi
    simp only [List.cons_append] at hm
    simp [step, Str.isWhite, isAlpha, stepWord, hm, hi', mkNum, List.take_left', List.drop_left']

/-- a run of digits followed by something that is not an identifier character is one INDEX token -/
theorem step_index (a : Char) (D r : Str) (dot : Bool) (ha : isDigit a = true) (hD : D.all isDigit = true) (hr : Fol dot r) :
    step (a :: D ++ r) = some (some (.index (a :: D)), r) := by
  have hk := countWhile_append isDigit D r hD hr.notDigit
  have hs := digit_not_sign ha
  have hw := digit_not_alpha_white ha
  have hrad : (if a = '0' then matchRadix (D ++ r) else none) = none := by
    split
    · cases D with
      | nil =>
        cases r with
        | nil => rfl
        | cons h r' =>
          simp only [Fol, folChars, List.mem_cons, List.not_mem_nil, or_false] at hr
          rcases hr with (rfl | rfl | rfl | rfl | rfl | rfl | rfl) | ⟨_, rfl⟩ <;> simp [matchRadix]
      | cons b D' =>
        simp only [List.all_cons, Bool.and_eq_true] at hD
        have := digit_range hD.1
        have h1 : b ≠ 'x' := toNat_ne (by simp; omega)
        have h2 : b ≠ 'o' := toNat_ne (by simp; omega)
        have h3 : b ≠ 'b' := toNat_ne (by simp; omega)
        simp only [List.cons_append, matchRadix]
        split <;> simp_all
    · rfl
  simp [step, hw.1, hw.2, ha, hs.2.2.1, stepDigit, hrad, hk, List.take_left', List.drop_left']

/-- scanning the body of a string literal written by the printer (every `\\` and `"` escaped) up to its closing quote -/
theorem scanStr_escape (s r : Str) : scanStr (Disp.escapeStr s ++ '"' :: r) = some ((Disp.escapeStr s).length + 1) := by
  induction s with
  | nil => simp [Disp.escapeStr, scanStr]
  | cons c s ih =>
    simp only [Disp.escapeStr, Disp.escChar]
    by_cases h1 : c = '\\'
    · subst h1; simp [scanStr, ih]
    · by_cases h2 : c = '"'
      · subst h2; simp [scanStr, ih]
      · simp only [beq_iff_eq, h1, h2, if_false, List.cons_append, List.nil_append]
        rw [scanStr]
        · simp [h2, ih]
        all_goals (intros; simp_all)

theorem take_snoc (A : Str) (q : Char) (r : Str) :
    (A ++ q :: r).take (A.length + 1) = A ++ [q] ∧ (A ++ q :: r).drop (A.length + 1) = r := by
  induction A with
  | nil => simp
  | cons a A ih => simp [ih.1, ih.2]

theorem step_string (s r : Str) :
    step ('"' :: Disp.escapeStr s ++ '"' :: r) = some (some (.str ('"' :: Disp.escapeStr s ++ ['"'])), r) := by
  have h := scanStr_escape s r
  have t := take_snoc (Disp.escapeStr s) '"' r
  simp [step, Str.isWhite, isAlpha, isDigit, stepString, h, t.1, t.2]

/-! ### the printed text of an expression -/

open Reval.G Reval.Disp

/-- the head of `r`, if any, satisfies `P` -/
def Hd (P : Char → Prop) (r : Str) : Prop := ∀ c r', r = c :: r' → P c

/-- a character that can start a token after a space or an opening bracket: not layout, and neither `=` nor `/`
    (which would extend a preceding `=`, `!`, `<`, `>` or `/`) -/
def StartC (c : Char) : Prop := Str.isWhite c = false ∧ c ≠ '=' ∧ c ≠ '/'

theorem Fol.noEq {dot : Bool} {r : Str} (h : Fol dot r) : ∀ d r', r = d :: r' → d ≠ '=' ∧ d ≠ '/' := by
  intro c r' e; subst e
  simp only [Fol, folChars, List.mem_cons, List.not_mem_nil, or_false] at h
  rcases h with (rfl | rfl | rfl | rfl | rfl | rfl | rfl) | ⟨_, rfl⟩ <;> decide

theorem Fol.mono {r : Str} (h : Fol false r) (dot : Bool) : Fol dot r := by
  cases r with
  | nil => trivial
  | cons c r' => simp only [Fol] at *; rcases h with h | ⟨h, _⟩ <;> simp_all

theorem Fol.of_head (dot : Bool) (c : Char) (r : Str) (hc : c ∈ folChars) : Fol dot (c :: r) := Or.inl hc

/-- a name the printer can write as one identifier: a letter, then identifier characters, not a keyword; after the
    literal prefixes `i`, `f`, `d` the next character is not a digit (the lexer also makes `i5x`, `f1x` identifiers, by
    longest match against the numeric literal; those are not covered) -/
def NameOK (n : Str) : Prop :=
  ∃ c rest, n = c :: rest ∧ isAlpha c = true ∧ rest.all isIdc = true ∧ NumFree c rest ∧ keywords.contains n = false

/-- the text of a literal leaf is one token when followed by a closing bracket, a space or a comma; the library's
    float text is not modelled character by character: for it this is the hypothesis (decimals are proved) -/
def LitText (sf : F64 → Str) : Value → Prop
  | .float f => ∀ r, Fol false r → step ('f' :: sf f ++ r) = some (some (.float ('f' :: sf f)), r)
  | .dec _ => True      -- proved: Lemmas/DecText.lean, `dec_step`
  | .str _ => True
  | .int _ => True
  | .bool _ => True
  | .none => True
  | _ => False

mutual
def TextOK (sf : F64 → Str) : Expr → Prop
  | .lit v => LitText sf v
  | .ref n => NameOK n
  | .sym n => NameOK n
  | .call f a => NameOK f ∧ TextOK sf a
  | .index e (.key k) => NameOK k ∧ TextOK sf e
  | .index e (.pos _) => TextOK sf e
  | .ite c t e => TextOK sf c ∧ TextOK sf t ∧ TextOK sf e
  | .and l r => TextOK sf l ∧ TextOK sf r
  | .or l r => TextOK sf l ∧ TextOK sf r
  | .eq l r => TextOK sf l ∧ TextOK sf r
  | .neq l r => TextOK sf l ∧ TextOK sf r
  | .un _ e => TextOK sf e
  | .bin _ l r => TextOK sf l ∧ TextOK sf r
  | .vec xs => TextOKL sf xs
  | .map kvs => TextOKM sf kvs
def TextOKL (sf : F64 → Str) : List Expr → Prop
  | [] => True
  | e :: es => TextOK sf e ∧ TextOKL sf es
def TextOKM (sf : F64 → Str) : List (Str × Expr) → Prop
  | [] => True
  | (k, e) :: kvs => NameOK k ∧ TextOK sf e ∧ TextOKM sf kvs
end

theorem alpha_start {c : Char} (h : isAlpha c = true) : StartC c := by
  refine ⟨alpha_not_white h, toNat_ne ?_, toNat_ne ?_⟩ <;>
    (rcases alpha_range h with ⟨a, b⟩ | ⟨a, b⟩ <;> simp <;> omega)

theorem NameOK.start {n : Str} (h : NameOK n) (r : Str) : Hd StartC (n ++ r) := by
  obtain ⟨c, rest, rfl, hc, _⟩ := h
  intro c' r' e
  simp only [List.cons_append, List.cons.injEq] at e
  rw [← e.1]; exact alpha_start hc

section
variable {sf : F64 → Str}

/-! the string constants of `Display`, as character lists (so that no proof has to evaluate `String.toList`) -/
theorem unName_eq (op : UnOp) : unName op = unKw op := by cases op <;> rfl
theorem s_true : "true".toList = ['t', 'r', 'u', 'e'] := rfl
theorem s_false : "false".toList = ['f', 'a', 'l', 's', 'e'] := rfl
theorem s_none : "none".toList = ['n', 'o', 'n', 'e'] := rfl
theorem s_comma : ", ".toList = [',', ' '] := rfl
theorem s_colon : ": ".toList = [':', ' '] := rfl
theorem s_if : "if ".toList = ['i', 'f', ' '] := rfl
theorem s_then : " then ".toList = [' ', 't', 'h', 'e', 'n', ' '] := rfl
theorem s_else : " else ".toList = [' ', 'e', 'l', 's', 'e', ' '] := rfl
theorem s_and : " and ".toList = [' ', 'a', 'n', 'd', ' '] := rfl
theorem s_or : " or ".toList = [' ', 'o', 'r', ' '] := rfl
theorem s_eq : " == ".toList = [' ', '=', '=', ' '] := rfl
theorem s_neq : " != ".toList = [' ', '!', '=', ' '] := rfl
theorem s_contains : " contains ".toList = [' ', 'c', 'o', 'n', 't', 'a', 'i', 'n', 's', ' '] := rfl

/-- the text of an operator / keyword token -/
def tokText : Tok → Str
  | .kw s | .ident s | .index s | .str s | .int s | .hex s | .oct s | .bin s | .float s | .dec s | .p s => s

theorem binSym_eq (op : BinOp) : binSym op = tokText (binTok op) := by cases op <;> rfl

/-! equation lemmas for the printer, by `rfl` (generating them through `simp only [showExpr]` is very slow for these
    mutually recursive definitions over the nested types) -/
/-- the text of an access step -/
def idxText : Index → Str
  | .key k => k
  | .pos n => showNat n

section eqs
variable (sf : F64 → Str)
theorem sv_str (s : Str) : showValue sf (.str s) = '"' :: escapeStr s ++ ['"'] := rfl
theorem sv_int (i : Int) : showValue sf (.int i) = 'i' :: showInt i := rfl
theorem sv_float (f : F64) : showValue sf (.float f) = 'f' :: sf f := rfl
theorem sv_dec (d : Dec) : showValue sf (.dec d) = 'd' :: showDec d := rfl
theorem sv_true : showValue sf (.bool true) = ['t', 'r', 'u', 'e'] := rfl
theorem sv_false : showValue sf (.bool false) = ['f', 'a', 'l', 's', 'e'] := rfl
theorem sv_none : showValue sf .none = ['n', 'o', 'n', 'e'] := rfl
theorem se_lit (v : Value) : showExpr sf (.lit v) = showValue sf v := rfl
theorem se_ref (n : Str) : showExpr sf (.ref n) = n := rfl
theorem se_sym (n : Str) : showExpr sf (.sym n) = ':' :: n := rfl
theorem se_call (f : Str) (a : Expr) : showExpr sf (.call f a) = f ++ ('(' :: showExpr sf a ++ [')']) := rfl
theorem se_index (e : Expr) (i : Index) : showExpr sf (.index e i) =
    '(' :: ((if needsParens e then '(' :: showExpr sf e ++ [')'] else showExpr sf e) ++ '.' :: idxText i) ++ [')'] := by
  cases i <;> rfl
theorem se_ite (c t e : Expr) : showExpr sf (.ite c t e) =
    '(' :: (['i', 'f', ' '] ++ showExpr sf c ++ [' ', 't', 'h', 'e', 'n', ' '] ++ showExpr sf t ++ [' ', 'e', 'l', 's', 'e', ' '] ++ showExpr sf e) ++ [')'] := rfl
theorem se_and (l r : Expr) : showExpr sf (.and l r) = '(' :: (showExpr sf l ++ [' ', 'a', 'n', 'd', ' '] ++ showExpr sf r) ++ [')'] := rfl
theorem se_or (l r : Expr) : showExpr sf (.or l r) = '(' :: (showExpr sf l ++ [' ', 'o', 'r', ' '] ++ showExpr sf r) ++ [')'] := rfl
theorem se_eq (l r : Expr) : showExpr sf (.eq l r) = '(' :: (showExpr sf l ++ [' ', '=', '=', ' '] ++ showExpr sf r) ++ [')'] := rfl
theorem se_neq (l r : Expr) : showExpr sf (.neq l r) = '(' :: (showExpr sf l ++ [' ', '!', '=', ' '] ++ showExpr sf r) ++ [')'] := rfl
theorem se_un (op : UnOp) (e : Expr) : showExpr sf (.un op e) = unKw op ++ ('(' :: showExpr sf e ++ [')']) := by
  rw [← unName_eq]; rfl
theorem se_bin (op : BinOp) (l r : Expr) : showExpr sf (.bin op l r) =
    if isBitwise op then
      showExpr sf l ++ ' ' :: tokText (binTok op) ++ ' ' :: (if needsParens r then '(' :: showExpr sf r ++ [')'] else showExpr sf r)
    else if op = .contains then
      '(' :: ((if needsParens l then '(' :: showExpr sf l ++ [')'] else showExpr sf l) ++ [' ', 'c', 'o', 'n', 't', 'a', 'i', 'n', 's', ' '] ++
        (if needsParens r then '(' :: showExpr sf r ++ [')'] else showExpr sf r)) ++ [')']
    else '(' :: (showExpr sf l ++ ' ' :: tokText (binTok op) ++ ' ' :: showExpr sf r) ++ [')'] := by
  rw [← binSym_eq]; rfl
theorem se_vec (xs : List Expr) : showExpr sf (.vec xs) = '[' :: joinSep [',', ' '] (showExprs sf xs) ++ [']'] := rfl
theorem se_map (kvs : List (Str × Expr)) : showExpr sf (.map kvs) = '{' :: joinSep [',', ' '] (showEntries sf kvs) ++ ['}'] := rfl
theorem ses_nil : showExprs sf [] = [] := rfl
theorem ses_cons (e : Expr) (es : List Expr) : showExprs sf (e :: es) = showExpr sf e :: showExprs sf es := rfl
theorem sen_nil : showEntries sf [] = [] := rfl
theorem sen_cons (k : Str) (e : Expr) (kvs : List (Str × Expr)) :
    showEntries sf ((k, e) :: kvs) = (k ++ [':', ' '] ++ showExpr sf e) :: showEntries sf kvs := rfl
end eqs

theorem startC_of {c : Char} (h1 : Str.isWhite c = false) (h2 : c ≠ '=') (h3 : c ≠ '/') : StartC c := ⟨h1, h2, h3⟩

theorem hd_cons {P : Char → Prop} {c : Char} {s : Str} (h : P c) : Hd P (c :: s) := by
  intro c' r' e; cases e; exact h

/-- the printed text of an expression starts with a character that can follow a space or an opening bracket -/
theorem start_showExpr : ∀ (e : Expr), TextOK sf e → ∀ r, Hd StartC (showExpr sf e ++ r)
  | .lit v, h, r => by
    rw [se_lit]
    cases v
    case bool b => cases b <;> simp only [sv_true, sv_false, List.cons_append] <;>
      exact hd_cons (by refine ⟨by decide, by decide, by decide⟩)
    case str s => rw [sv_str]; exact hd_cons (by refine ⟨by decide, by decide, by decide⟩)
    case int s => rw [sv_int]; exact hd_cons (by refine ⟨by decide, by decide, by decide⟩)
    case float s => rw [sv_float]; exact hd_cons (by refine ⟨by decide, by decide, by decide⟩)
    case dec s => rw [sv_dec]; exact hd_cons (by refine ⟨by decide, by decide, by decide⟩)
    case none => rw [sv_none]; exact hd_cons (by refine ⟨by decide, by decide, by decide⟩)
    all_goals (exfalso; simp [TextOK, LitText] at h)
  | .ref n, h, r => by rw [se_ref]; exact NameOK.start (by simpa [TextOK] using h) r
  | .sym n, _, r => by rw [se_sym]; exact hd_cons (by refine ⟨by decide, by decide, by decide⟩)
  | .call f a, h, r => by
    rw [se_call, List.append_assoc]; exact NameOK.start (by simp only [TextOK] at h; exact h.1) _
  | .index e i, _, r => by rw [se_index]; exact hd_cons (by refine ⟨by decide, by decide, by decide⟩)
  | .ite c t e, _, r => by rw [se_ite]; exact hd_cons (by refine ⟨by decide, by decide, by decide⟩)
  | .and l r', _, r => by rw [se_and]; exact hd_cons (by refine ⟨by decide, by decide, by decide⟩)
  | .or l r', _, r => by rw [se_or]; exact hd_cons (by refine ⟨by decide, by decide, by decide⟩)
  | .eq l r', _, r => by rw [se_eq]; exact hd_cons (by refine ⟨by decide, by decide, by decide⟩)
  | .neq l r', _, r => by rw [se_neq]; exact hd_cons (by refine ⟨by decide, by decide, by decide⟩)
  | .un op e, _, r => by
    rw [se_un]
    cases op <;> simp only [unKw, List.cons_append] <;> exact hd_cons (by refine ⟨by decide, by decide, by decide⟩)
  | .bin op l r', h, r => by
    rw [se_bin]
    split
    · simp only [List.append_assoc]; exact start_showExpr l (by simp only [TextOK] at h; exact h.1) _
    · split <;> exact hd_cons (by refine ⟨by decide, by decide, by decide⟩)
  | .vec xs, _, r => by rw [se_vec]; exact hd_cons (by refine ⟨by decide, by decide, by decide⟩)
  | .map kvs, _, r => by rw [se_map]; exact hd_cons (by refine ⟨by decide, by decide, by decide⟩)
/-! ### combinators -/

theorem Hd.noEq_of_start {r : Str} (h : Hd StartC r) : Hd (fun d => d ≠ '=' ∧ d ≠ '/') r :=
  fun c r' e => ⟨(h c r' e).2.1, (h c r' e).2.2⟩

theorem lx_p1 {c : Char} {r : Str} {T : List Tok} (hc : c ∈ p1Chars) (hr : Hd (fun d => d ≠ '=' ∧ d ≠ '/') r)
    (h : Lexes r T) : Lexes (c :: r) (.p [c] :: T) :=
  Lexes.tok (w := [c]) (by simp) (step_punct1 c r hc hr) h

theorem lx_p2 {c : Char} {r : Str} {T : List Tok} (hc : c ∈ ['=', '!', '>', '<']) (h : Lexes r T) :
    Lexes (c :: '=' :: r) (.p [c, '='] :: T) :=
  Lexes.tok (w := [c, '=']) (by simp) (step_punct2 c r hc) h

theorem lx_sp {r : Str} {T : List Tok} (hr : Hd StartC r) (h : Lexes r T) : Lexes (' ' :: r) T :=
  Lexes.skip (w := [' ']) (by simp) (step_space r (fun c r' e => (hr c r' e).1)) h

/-- a word (keyword or identifier) -/
theorem lx_word {c : Char} {rest r : Str} {T : List Tok} (dot : Bool) (hc : isAlpha c = true) (hrest : rest.all isIdc = true)
    (hnum : NumFree c rest)
    (hdot : dot = true → rest = [] → c ≠ 'f' ∧ c ≠ 'd') (hr : Fol dot r) (h : Lexes r T) :
    Lexes (c :: rest ++ r) (wordOf (c :: rest) :: T) :=
  Lexes.tok (w := c :: rest) (by simp) (step_word c rest r dot hc hrest hnum hdot hr) h

theorem lx_ident {n r : Str} {T : List Tok} (hn : NameOK n) (dot : Bool) (hdot : dot = true → isLitPrefixName n = false)
    (hr : Fol dot r) (h : Lexes r T) : Lexes (n ++ r) (.ident n :: T) := by
  obtain ⟨c, rest, rfl, hc, hrest, hnum, hkw⟩ := hn
  have := lx_word (T := T) dot hc hrest hnum (by
    intro hd e; subst e
    have := hdot hd
    simp only [isLitPrefixName, Bool.or_eq_false_iff, beq_eq_false_iff_ne, ne_eq, List.cons.injEq, and_true] at this
    exact this) hr h
  simp only [wordOf, hkw, Bool.false_eq_true, if_false, List.cons_append] at this
  exact this

/-- the keywords the printer writes -/
def KwText (w : Str) : Prop :=
  keywords.contains w = true ∧ ∃ c rest, w = c :: rest ∧ isAlpha c = true ∧ rest.all isIdc = true ∧
    ((c = 'i' ∨ c = 'f' ∨ c = 'd') → ∀ a rest', rest = a :: rest' → isDigit a = false) ∧ rest ≠ []

theorem lx_kw {w r : Str} {T : List Tok} (hw : KwText w) (dot : Bool) (hr : Fol dot r) (h : Lexes r T) :
    Lexes (w ++ r) (.kw w :: T) := by
  obtain ⟨hk, c, rest, rfl, hc, hrest, hnum, hne⟩ := hw
  have := lx_word (T := T) dot hc hrest (NumFree.old hnum) (fun _ e => absurd e hne) hr h
  simp only [wordOf, hk, if_true, List.cons_append] at this
  exact this

theorem kwText_lit : KwText ['t', 'r', 'u', 'e'] ∧ KwText ['f', 'a', 'l', 's', 'e'] ∧ KwText ['n', 'o', 'n', 'e'] ∧
    KwText ['i', 'f'] ∧ KwText ['t', 'h', 'e', 'n'] ∧ KwText ['e', 'l', 's', 'e'] ∧ KwText ['a', 'n', 'd'] ∧ KwText ['o', 'r'] ∧
    KwText ['c', 'o', 'n', 't', 'a', 'i', 'n', 's'] := by
  refine ⟨?_, ?_, ?_, ?_, ?_, ?_, ?_, ?_, ?_⟩ <;>
    exact ⟨by decide, _, _, rfl, by decide, by decide, by intro _ a r e; cases e; decide, by simp⟩

theorem kwText_un (op : UnOp) (h1 : op ≠ .neg) (h2 : op ≠ .not) : KwText (unKw op) := by
  cases op <;> first
    | exact absurd rfl h1
    | exact absurd rfl h2
    | exact ⟨by decide, _, _, rfl, by decide, by decide, by intro _ a r e; cases e; decide, by simp⟩

theorem fol_close (dot : Bool) (r : Str) : Fol dot (')' :: r) := Fol.of_head dot _ r (by decide)
theorem fol_space (dot : Bool) (r : Str) : Fol dot (' ' :: r) := Fol.of_head dot _ r (by decide)
theorem fol_comma (dot : Bool) (r : Str) : Fol dot (',' :: r) := Fol.of_head dot _ r (by decide)
theorem fol_open (dot : Bool) (r : Str) : Fol dot ('(' :: r) := Fol.of_head dot _ r (by decide)
theorem fol_colon (dot : Bool) (r : Str) : Fol dot (':' :: r) := Fol.of_head dot _ r (by decide)
theorem fol_rbr (dot : Bool) (r : Str) : Fol dot (']' :: r) := Fol.of_head dot _ r (by decide)
theorem fol_rbrace (dot : Bool) (r : Str) : Fol dot ('}' :: r) := Fol.of_head dot _ r (by decide)
theorem fol_dot (r : Str) : Fol true ('.' :: r) := Or.inr ⟨rfl, rfl⟩

theorem hd_noEq {c : Char} {s : Str} (h1 : c ≠ '=') (h2 : c ≠ '/') : Hd (fun d => d ≠ '=' ∧ d ≠ '/') (c :: s) :=
  hd_cons ⟨h1, h2⟩

/-! ### the printed text of an expression lexes to its printed tokens -/

/-- what the induction proves for one expression -/
def LexShow (sf : F64 → Str) (e : Expr) : Prop :=
  ∀ r T, Fol (!needsParens e) r → Lexes r T → Lexes (showExpr sf e ++ r) (dispToks sf e ++ T)

theorem lx_operand {e : Expr} (ih : LexShow sf e) (hs : ∀ r, Hd StartC (showExpr sf e ++ r)) {r : Str} {T : List Tok}
    (hr : Fol true r) (h : Lexes r T) :
    Lexes ((if needsParens e then '(' :: showExpr sf e ++ [')'] else showExpr sf e) ++ r)
      ((if needsParens e then wrap (dispToks sf e) else dispToks sf e) ++ T) := by
  cases hnp : needsParens e
  · simp only [Bool.false_eq_true, if_false]
    exact ih r T (by simpa [hnp] using hr) h
  · simp only [if_true, wrap, lp, rp, List.cons_append, List.append_assoc, List.nil_append]
    refine lx_p1 (by decide) (hs _).noEq_of_start ?_
    refine ih _ _ (by simpa [hnp] using fol_close false r) ?_
    exact lx_p1 (by decide) hr.noEq h

end

end Reval.LexC
