/-
  Lemmas/Literals.lean — literal round trips (C08): the decimal rendering of an integer converts back to
  it; the escaped rendering of a string unescapes back to it.
-/
import RevalModel.Impl.Display

namespace Reval

open Disp

theorem digitVal_digitChar (n : Nat) : Str.digitVal (digitChar n) = n % 10 ∧ Str.isDigit (digitChar n) = true := by
  have h : n % 10 < 10 := Nat.mod_lt _ (by omega)
  unfold digitChar
  generalize n % 10 = d at h
  have : d = 0 ∨ d = 1 ∨ d = 2 ∨ d = 3 ∨ d = 4 ∨ d = 5 ∨ d = 6 ∨ d = 7 ∨ d = 8 ∨ d = 9 := by omega
  rcases this with rfl|rfl|rfl|rfl|rfl|rfl|rfl|rfl|rfl|rfl <;> decide

theorem ofDigits_snoc (xs : Str) (c : Char) : Str.ofDigits (xs ++ [c]) = Str.ofDigits xs * 10 + Str.digitVal c := by
  simp [Str.ofDigits, List.foldl_append]

/-- `natDigitsAux` prepends the decimal digits of `n` -/
theorem natDigitsAux_spec : ∀ (fuel n : Nat) (acc : Str), n < fuel →
    ∃ D : Str, natDigitsAux fuel n acc = D ++ acc ∧ Str.ofDigits D = n ∧ D.all Str.isDigit = true ∧ D ≠ [] := by
  intro fuel
  induction fuel with
  | zero => intro n acc h; omega
  | succ f ih =>
    intro n acc h
    simp only [natDigitsAux]
    split
    · rename_i hn
      refine ⟨[digitChar n], rfl, ?_, ?_, by simp⟩
      · have := (digitVal_digitChar n).1
        simp [Str.ofDigits, this]; omega
      · simp [(digitVal_digitChar n).2]
    · rename_i hn
      obtain ⟨D, hD, hv, ha, hne⟩ := ih (n / 10) (digitChar n :: acc) (by omega)
      refine ⟨D ++ [digitChar n], by simp [hD], ?_, ?_, by simp⟩
      · rw [ofDigits_snoc, hv, (digitVal_digitChar n).1]; omega
      · simp [ha, (digitVal_digitChar n).2]

theorem showNat_spec (n : Nat) :
    Str.ofDigits (showNat n) = n ∧ (showNat n).all Str.isDigit = true ∧ showNat n ≠ [] := by
  obtain ⟨D, hD, hv, ha, hne⟩ := natDigitsAux_spec (n + 1) n [] (by omega)
  unfold showNat
  simp only [List.append_nil] at hD
  rw [hD]; exact ⟨hv, ha, hne⟩

theorem head_digit_not_sign (D : Str) (ha : D.all Str.isDigit = true) (hne : D ≠ []) :
    ∃ c r, D = c :: r ∧ c ≠ '-' ∧ c ≠ '+' := by
  cases D with
  | nil => exact absurd rfl hne
  | cons c r =>
    refine ⟨c, r, rfl, ?_, ?_⟩ <;> (intro e; subst e; simp [Str.isDigit] at ha)

/-- `i128::from_str` of the decimal rendering of an in-range integer gives that integer -/
theorem parseI128_showInt (n : Int) (h : I128.inRange n = true) : Str.parseI128 (showInt n) = some n := by
  unfold showInt Str.parseI128
  by_cases hn : n < 0
  · simp only [hn, if_true]
    obtain ⟨hv, ha, hne⟩ := showNat_spec n.natAbs
    have he : (showNat n.natAbs).isEmpty = false := by
      cases hh : showNat n.natAbs with
      | nil => exact absurd hh hne
      | cons _ _ => rfl
    simp only [he, ha, Bool.false_or, Bool.not_true, Bool.false_eq_true, if_false, hv]
    have : -(n.natAbs : Int) = n := by omega
    simp [this, I128.checked, h]
  · simp only [hn, if_false]
    obtain ⟨hv, ha, hne⟩ := showNat_spec n.toNat
    have hfin : (if (showNat n.toNat).isEmpty = true ∨ ¬ (showNat n.toNat).all Str.isDigit = true then none
        else I128.checked (Str.ofDigits (showNat n.toNat) : Int)) = some n := by
      have he' : (showNat n.toNat).isEmpty = false := by
        cases hh : showNat n.toNat with
        | nil => exact absurd hh hne
        | cons _ _ => rfl
      have : (n.toNat : Int) = n := by omega
      simp [he', ha, hv, this, I128.checked, h]
    cases hs : showNat n.toNat with
    | nil => exact absurd hs hne
    | cons c r =>
      rw [hs] at ha hfin
      have h1 : c ≠ '-' := by intro e; subst e; simp [Str.isDigit] at ha
      have h2 : c ≠ '+' := by intro e; subst e; simp [Str.isDigit] at ha
      split
      · rename_i heq; simp at heq; exact absurd heq.1 h1
      · rename_i heq; simp at heq; exact absurd heq.1 h2
      · simpa using hfin

/-- the INT token `i<decimal rendering>` denotes exactly that integer, over the whole 128-bit range -/
theorem int_token_value (o : Oracle) (n : Int) (h : I128.inRange n = true) :
    Lit.ofTok o (.int ('i' :: showInt n)) = .ok (.int n) [] := by
  simp [Lit.ofTok, Lit.sliceFrom, parseI128_showInt n h]

/-- unescaping the escaped form of a string gives the string back (any characters) -/
theorem unescapeAux_escapeStr : ∀ (s : Str) (f : Nat), s.length < f → Lit.unescapeAux f (escapeStr s) = some s := by
  intro s
  induction s with
  | nil => intro f _; cases f <;> simp [escapeStr, Lit.unescapeAux]
  | cons c cs ih =>
    intro f hf
    cases f with
    | zero => simp at hf
    | succ f =>
      have hlen : cs.length < f := by simpa using hf
      have ih' := ih f hlen
      simp only [escapeStr, escChar]
      by_cases h1 : c = '\\'
      · subst h1; simp [Lit.unescapeAux, ih']
      · by_cases h2 : c = '"'
        · subst h2; simp [Lit.unescapeAux, ih']
        · simp [h1, h2, Lit.unescapeAux, ih']

theorem escapeStr_length (s : Str) : s.length ≤ (escapeStr s).length := by
  induction s with
  | nil => simp [escapeStr]
  | cons c cs ih =>
    simp only [escapeStr, escChar, List.length_append, List.length_cons]
    split <;> (try split) <;> simp <;> omega

theorem unescape_escapeStr (s : Str) : Lit.unescape (escapeStr s) = some s := by
  unfold Lit.unescape
  apply unescapeAux_escapeStr
  have := escapeStr_length s
  omega

/-- the STRING token `"<escaped s>"` denotes exactly `s` -/
theorem str_token_value (o : Oracle) (s : Str) :
    Lit.ofTok o (.str ('"' :: escapeStr s ++ ['"'])) = .ok (.str s) [] := by
  have hl : ¬ ('"' :: escapeStr s ++ ['"']).length < 2 := by simp
  have hmid : (('"' :: escapeStr s ++ ['"']).drop 1).take (('"' :: escapeStr s ++ ['"']).length - 2) = escapeStr s := by
    simp
  simp only [Lit.ofTok, hl, if_false, hmid, unescape_escapeStr]

end Reval
