/-
  Lemmas/DecExact.lean — what the Decimal cells `+ − ×` compute, as theorems about the model of
  `rust_decimal` (Prim/DecTime.lean): the exact rational result, rounded half-even at the finest scale at which
  the mantissa fits 96 bits; exactly the exact result when that fits at the operands' scale; an overflow only when
  not even the rounding to an integer fits.  Never a wrapped or truncated mantissa.
-/
import RevalModel.Lemmas.InRange

namespace Reval
namespace Dec

/-- `rhe n d` is a nearest integer to `n / d`: the error is at most half a unit -/
theorem rhe_near (n d : Nat) (hd : 0 < d) :
    2 * ((rhe n d : Int) * d - n).natAbs ≤ d := by
  have h1 := Nat.div_add_mod n d
  have h2 := Nat.mod_lt n hd
  unfold rhe; dsimp only
  have hq : (n / d) * d + n % d = n := by rw [Nat.mul_comm]; exact h1
  generalize n / d = q at *
  generalize n % d = r at *
  have hn : (n : Int) = (q : Int) * d + r := by exact_mod_cast hq.symm
  split
  · have : ((q + 1 : Nat) : Int) * d = (q : Int) * d + d := by push_cast; rw [Int.add_mul, Int.one_mul]
    rw [this, hn]; omega
  · split
    · split
      · have : ((q + 1 : Nat) : Int) * d = (q : Int) * d + d := by push_cast; rw [Int.add_mul, Int.one_mul]
        rw [this, hn]; omega
      · rw [hn]; omega
    · rw [hn]; omega

/-- ties go to the even neighbour -/
theorem rhe_tie_even (n d : Nat) (h : 2 * (n % d) = d) : rhe n d % 2 = 0 := by
  unfold rhe; dsimp only
  have h0 : ¬ (2 * (n % d) > d) := by omega
  rw [if_neg h0, if_pos h]
  split <;> omega

theorem fit_spec : ∀ (n s start m sc : Nat), fit n s start = some (m, sc) →
    sc ≤ start ∧ m = rhe n (10 ^ (s - sc)) ∧ m ≤ maxMant ∧
    ∀ sc', sc < sc' → sc' ≤ start → maxMant < rhe n (10 ^ (s - sc'))
  | n, s, 0, m, sc, h => by
    simp only [fit] at h
    split at h
    · injection h with h; injection h with h1 h2; subst h1 h2
      exact ⟨Nat.le_refl _, rfl, by assumption, fun sc' h1 h2 => by omega⟩
    · simp at h
  | n, s, start + 1, m, sc, h => by
    simp only [fit] at h
    split at h
    · injection h with h; injection h with h1 h2; subst h1 h2
      exact ⟨Nat.le_refl _, rfl, by assumption, fun sc' h1 h2 => by omega⟩
    · rename_i hbig
      have ih := fit_spec n s start m sc h
      refine ⟨by omega, ih.2.1, ih.2.2.1, fun sc' h1 h2 => ?_⟩
      by_cases hsc : sc' = start + 1
      · subst hsc; omega
      · exact ih.2.2.2 sc' h1 (by omega)

theorem fit_none : ∀ (n s start : Nat), fit n s start = none →
    ∀ sc', sc' ≤ start → maxMant < rhe n (10 ^ (s - sc'))
  | n, s, 0, h => by
    simp only [fit] at h
    split at h
    · simp at h
    · intro sc' h1; have : sc' = 0 := by omega
      subst this; simp only [Nat.sub_zero]; omega
  | n, s, start + 1, h => by
    simp only [fit] at h
    split at h
    · simp at h
    · intro sc' h1
      by_cases hsc : sc' = start + 1
      · subst hsc; omega
      · exact fit_none n s start h sc' (by omega)


theorem rhe_one (n : Nat) : rhe n 1 = n := by
  unfold rhe; simp [Nat.mod_one]

/-- the exact numerator of `a ± b` over `10 ^ max a.scale b.scale` -/
def sumNum (a : Dec) (bneg : Bool) (b : Dec) : Int :=
  let s := if a.scale ≥ b.scale then a.scale else b.scale
  a.num * 10 ^ (s - a.scale) + (if bneg then -(b.mant : Int) else (b.mant : Int)) * 10 ^ (s - b.scale)

def sumScale (a b : Dec) : Nat := if a.scale ≥ b.scale then a.scale else b.scale

/-- `a ± b` for non-zero operands: the exact sum correctly rounded (half-even) at the finest scale at which
    it fits 96 bits; an overflow only when not even the rounding to an integer fits; never a wrapped value -/
theorem addSigned_spec (a : Dec) (bneg : Bool) (b : Dec) (ha : a.mant ≠ 0) (hb : b.mant ≠ 0) :
    match addSigned a bneg b with
    | .val d =>
        d.scale ≤ sumScale a b ∧ d.mant ≤ maxMant ∧ d.neg = decide (sumNum a bneg b < 0) ∧
        d.mant = rhe (sumNum a bneg b).natAbs (10 ^ (sumScale a b - d.scale)) ∧
        2 * ((d.mant : Int) * (10 ^ (sumScale a b - d.scale) : Nat) - (sumNum a bneg b).natAbs).natAbs
          ≤ 10 ^ (sumScale a b - d.scale) ∧
        ∀ sc', d.scale < sc' → sc' ≤ sumScale a b →
          maxMant < rhe (sumNum a bneg b).natAbs (10 ^ (sumScale a b - sc'))
    | .overflow => ∀ sc', sc' ≤ sumScale a b → maxMant < rhe (sumNum a bneg b).natAbs (10 ^ (sumScale a b - sc'))
    | .unknown => ∃ sc, sc ≤ sumScale a b ∧ rhe (sumNum a bneg b).natAbs (10 ^ (sumScale a b - sc)) = 0 := by
  unfold addSigned
  rw [if_neg (by omega), if_neg hb, if_neg ha]
  dsimp only
  have hN : (a.num * 10 ^ ((if a.scale ≥ b.scale then a.scale else b.scale) - a.scale) +
      (if bneg = true then -(b.mant : Int) else (b.mant : Int)) *
        10 ^ ((if a.scale ≥ b.scale then a.scale else b.scale) - b.scale)) = sumNum a bneg b := rfl
  have hS : (if a.scale ≥ b.scale then a.scale else b.scale) = sumScale a b := rfl
  rw [hN, hS]
  cases hf : fit (sumNum a bneg b).natAbs (sumScale a b) (sumScale a b) with
  | none => dsimp only; exact fit_none _ _ _ hf
  | some p =>
    obtain ⟨m, sc⟩ := p
    have hs := fit_spec _ _ _ _ _ hf
    dsimp only
    by_cases hm : m = 0
    · rw [if_pos hm]; dsimp only; subst hm; exact ⟨sc, hs.1, hs.2.1.symm⟩
    · rw [if_neg hm]; dsimp only
      refine ⟨hs.1, hs.2.2.1, rfl, hs.2.1, ?_, hs.2.2.2⟩
      have := rhe_near (sumNum a bneg b).natAbs (10 ^ (sumScale a b - sc)) (pow10_pos _)
      rw [← hs.2.1] at this; exact this

/-- when the exact sum fits 96 bits at the operands' scale, the result IS the exact sum -/
theorem addSigned_exact_when_fits (a : Dec) (bneg : Bool) (b : Dec) (ha : a.mant ≠ 0) (hb : b.mant ≠ 0)
    (hz : sumNum a bneg b ≠ 0) (hfit : (sumNum a bneg b).natAbs ≤ maxMant) :
    addSigned a bneg b = .val ⟨decide (sumNum a bneg b < 0), (sumNum a bneg b).natAbs, sumScale a b⟩ := by
  unfold addSigned
  rw [if_neg (by omega), if_neg hb, if_neg ha]
  dsimp only
  have hN : (a.num * 10 ^ ((if a.scale ≥ b.scale then a.scale else b.scale) - a.scale) +
      (if bneg = true then -(b.mant : Int) else (b.mant : Int)) *
        10 ^ ((if a.scale ≥ b.scale then a.scale else b.scale) - b.scale)) = sumNum a bneg b := rfl
  have hS : (if a.scale ≥ b.scale then a.scale else b.scale) = sumScale a b := rfl
  rw [hN, hS]
  have hf : fit (sumNum a bneg b).natAbs (sumScale a b) (sumScale a b) =
      some ((sumNum a bneg b).natAbs, sumScale a b) := by
    cases hsc : sumScale a b with
    | zero => simp [fit, rhe_one, hfit]
    | succ k => simp [fit, rhe_one, hfit]
  rw [hf]
  dsimp only
  rw [if_neg (by omega)]

/-- `a × b` for non-zero operands: the exact product correctly rounded at the finest scale ≤ 28 at which it fits -/
theorem mul_spec (a b : Dec) (ha : a.mant ≠ 0) (hb : b.mant ≠ 0) :
    match mul a b with
    | .val d =>
        d.scale ≤ a.scale + b.scale ∧ d.scale ≤ 28 ∧ d.mant ≤ maxMant ∧ d.neg = (a.neg != b.neg) ∧
        d.mant = rhe (a.mant * b.mant) (10 ^ (a.scale + b.scale - d.scale)) ∧
        2 * ((d.mant : Int) * (10 ^ (a.scale + b.scale - d.scale) : Nat) - (a.mant * b.mant : Nat)).natAbs
          ≤ 10 ^ (a.scale + b.scale - d.scale) ∧
        ∀ sc', d.scale < sc' → sc' ≤ a.scale + b.scale → sc' ≤ 28 →
          maxMant < rhe (a.mant * b.mant) (10 ^ (a.scale + b.scale - sc'))
    | .overflow => ∀ sc', sc' ≤ a.scale + b.scale → sc' ≤ 28 →
          maxMant < rhe (a.mant * b.mant) (10 ^ (a.scale + b.scale - sc'))
    | .unknown => ∃ sc, sc ≤ 28 ∧ rhe (a.mant * b.mant) (10 ^ (a.scale + b.scale - sc)) = 0 := by
  unfold mul
  rw [if_neg (by simp [ha, hb])]
  dsimp only
  cases hf : fit (a.mant * b.mant) (a.scale + b.scale) (if a.scale + b.scale ≤ 28 then a.scale + b.scale else 28) with
  | none =>
    dsimp only
    intro sc' h1 h2
    exact fit_none _ _ _ hf sc' (by split <;> omega)
  | some p =>
    obtain ⟨m, sc⟩ := p
    have hs := fit_spec _ _ _ _ _ hf
    dsimp only
    by_cases hm : m = 0
    · rw [if_pos hm]; dsimp only; subst hm
      refine ⟨sc, ?_, hs.2.1.symm⟩
      have := hs.1; split at this <;> omega
    · rw [if_neg hm]; dsimp only
      refine ⟨?_, ?_, hs.2.2.1, rfl, hs.2.1, ?_, ?_⟩
      · have := hs.1; split at this <;> omega
      · have := hs.1; split at this <;> omega
      · have := rhe_near (a.mant * b.mant) (10 ^ (a.scale + b.scale - sc)) (pow10_pos _)
        rw [← hs.2.1] at this; exact this
      · intro sc' h1 h2 h3
        exact hs.2.2.2 sc' h1 (by split <;> omega)


/-- when the exact product fits 96 bits at scale `s₁ + s₂ ≤ 28`, the result IS the exact product -/
theorem mul_exact_when_fits (a b : Dec) (ha : a.mant ≠ 0) (hb : b.mant ≠ 0)
    (hs : a.scale + b.scale ≤ 28) (hfit : a.mant * b.mant ≤ maxMant) :
    mul a b = .val ⟨a.neg != b.neg, a.mant * b.mant, a.scale + b.scale⟩ := by
  unfold mul
  rw [if_neg (by simp [ha, hb])]
  dsimp only
  rw [if_pos hs]
  have hf : fit (a.mant * b.mant) (a.scale + b.scale) (a.scale + b.scale) =
      some (a.mant * b.mant, a.scale + b.scale) := by
    cases hsc : a.scale + b.scale with
    | zero => simp [fit, rhe_one, hfit]
    | succ k => simp [fit, rhe_one, hfit]
  rw [hf]
  dsimp only
  have : a.mant * b.mant ≠ 0 := Nat.mul_ne_zero ha hb
  rw [if_neg this]

/-- the numerator a (sign, mantissa) pair denotes -/
theorem num_mk (n : Int) : Dec.num ⟨decide (n < 0), n.natAbs, 0⟩ = n := by
  unfold num; simp only [decide_eq_true_eq]; split <;> omega

/-- `floor`: the greatest integer not above the value (`value = num / 10^scale`) -/
theorem floor_spec {d r : Dec} (h : floor d = .val r) :
    r.scale = 0 ∧ r.num * 10 ^ d.scale ≤ d.num ∧ d.num < (r.num + 1) * 10 ^ d.scale := by
  unfold floor at h
  dsimp only at h
  have hp : (0 : Int) < 10 ^ d.scale := Int.pow_pos (by decide)
  have hid := Int.tmod_add_mul_tdiv d.num (10 ^ d.scale)
  have hlt := Int.tmod_lt_of_pos d.num hp
  have hgt := Int.lt_tmod_of_pos d.num hp
  generalize hq : Int.tdiv d.num (10 ^ d.scale) = q at *
  generalize hr : Int.tmod d.num (10 ^ d.scale) = rm at *
  generalize hP : (10 : Int) ^ d.scale = P at *
  have hnum : d.num = rm + P * q := hid.symm
  have hqP : q * P = P * q := Int.mul_comm _ _
  unfold toInt at h
  rw [hP, hq] at h
  split at h
  · -- negative and inexact: q - 1
    rename_i hc
    simp only [Bool.and_eq_true, decide_eq_true_eq] at hc
    have hneg : d.num ≤ 0 := by unfold num; rw [hc.1]; simp
    have hrm0 : rm ≠ 0 := by intro h0; apply hc.2; rw [hnum, h0, hqP]; omega
    have hrmle : rm ≤ 0 := by
      have := Int.tmod_nonneg (a := -d.num) (10 ^ d.scale) (by omega)
      rw [Int.neg_tmod, hP, hr] at this; omega
    split at h; · simp at h
    injection h with h; subst h
    refine ⟨rfl, ?_, ?_⟩
    · rw [num_mk, Int.sub_mul, Int.one_mul, hqP, hnum]; omega
    · rw [num_mk, show q - 1 + 1 = q by omega, hqP, hnum]; omega
  · rename_i hc
    simp only [Bool.and_eq_true, decide_eq_true_eq, not_and, Decidable.not_not] at hc
    split at h; · simp at h
    injection h with h; subst h
    refine ⟨rfl, ?_, ?_⟩
    · rw [num_mk, hqP, hnum]
      by_cases hn : d.neg = true
      · have := hc hn; rw [hnum, hqP] at this; omega
      · have hpos : 0 ≤ d.num := by unfold num; simp [hn]
        have := Int.tmod_nonneg (10 ^ d.scale) hpos
        rw [hP, hr] at this; omega
    · rw [num_mk, Int.add_mul, Int.one_mul, hqP, hnum]; omega

/-- `round`: a nearest integer to the value, the even one on a tie, with the sign of the operand -/
theorem round_spec {d r : Dec} (h : round d = .val r) :
    r.scale = 0 ∧ r.neg = d.neg ∧ 2 * ((r.mant : Int) * (10 ^ d.scale : Nat) - d.mant).natAbs ≤ 10 ^ d.scale ∧
    (2 * (d.mant % 10 ^ d.scale) = 10 ^ d.scale → r.mant % 2 = 0) := by
  unfold round at h
  dsimp only at h
  split at h; · simp at h
  injection h with h; subst h
  exact ⟨rfl, rfl, rhe_near d.mant (10 ^ d.scale) (pow10_pos _), rhe_tie_even d.mant (10 ^ d.scale)⟩

/-- `fract`: what remains after removing the integer part, same sign and scale -/
theorem fract_spec {d r : Dec} (h : fract d = .val r) :
    r.scale = d.scale ∧ r.neg = d.neg ∧ r.mant = d.mant % 10 ^ d.scale ∧
    d.mant = (d.mant / 10 ^ d.scale) * 10 ^ d.scale + r.mant := by
  unfold fract at h
  dsimp only at h
  split at h; · simp at h
  injection h with h; subst h
  refine ⟨rfl, rfl, rfl, ?_⟩
  have := Nat.div_add_mod d.mant (10 ^ d.scale)
  rw [Nat.mul_comm] at this; exact this.symm

theorem pow_split (hi lo : Nat) (h : lo ≤ hi) : (10 : Int) ^ hi = 10 ^ (hi - lo) * 10 ^ lo := by
  rw [← Int.pow_add]; congr 1; omega

/-- the comparison operators on Decimals are the order of the values `num / 10^scale` (cross-multiplied) -/
theorem lt_iff_cross (a b : Dec) : Dec.lt a b = true ↔ a.num * 10 ^ b.scale < b.num * 10 ^ a.scale := by
  unfold Dec.lt cmpNum
  simp only [decide_eq_true_eq]
  have hb : (0 : Int) < 10 ^ b.scale := Int.pow_pos (by decide)
  have ha : (0 : Int) < 10 ^ a.scale := Int.pow_pos (by decide)
  split
  · rename_i h
    rw [Nat.sub_self, Int.pow_zero, Int.mul_one, pow_split a.scale b.scale h, ← Int.mul_assoc]
    exact (Int.mul_lt_mul_right hb).symm
  · rename_i h
    have h' : a.scale ≤ b.scale := by omega
    rw [Nat.sub_self, Int.pow_zero, Int.mul_one, pow_split b.scale a.scale h', ← Int.mul_assoc]
    exact (Int.mul_lt_mul_right ha).symm

theorem le_iff_cross (a b : Dec) : Dec.le a b = true ↔ a.num * 10 ^ b.scale ≤ b.num * 10 ^ a.scale := by
  unfold Dec.le cmpNum
  simp only [decide_eq_true_eq]
  have hb : (0 : Int) < 10 ^ b.scale := Int.pow_pos (by decide)
  have ha : (0 : Int) < 10 ^ a.scale := Int.pow_pos (by decide)
  split
  · rename_i h
    rw [Nat.sub_self, Int.pow_zero, Int.mul_one, pow_split a.scale b.scale h, ← Int.mul_assoc]
    exact (Int.mul_le_mul_right hb).symm
  · rename_i h
    have h' : a.scale ≤ b.scale := by omega
    rw [Nat.sub_self, Int.pow_zero, Int.mul_one, pow_split b.scale a.scale h', ← Int.mul_assoc]
    exact (Int.mul_le_mul_right ha).symm

theorem eqNum_iff_cross (a b : Dec) : Dec.eqNum a b = true ↔ a.num * 10 ^ b.scale = b.num * 10 ^ a.scale := by
  unfold Dec.eqNum cmpNum
  simp only [decide_eq_true_eq]
  have hb : (10 : Int) ^ b.scale ≠ 0 := Int.ne_of_gt (Int.pow_pos (by decide))
  have ha : (10 : Int) ^ a.scale ≠ 0 := Int.ne_of_gt (Int.pow_pos (by decide))
  split
  · rename_i h
    rw [Nat.sub_self, Int.pow_zero, Int.mul_one, pow_split a.scale b.scale h, ← Int.mul_assoc]
    exact (Int.mul_eq_mul_right_iff hb).symm
  · rename_i h
    have h' : a.scale ≤ b.scale := by omega
    rw [Nat.sub_self, Int.pow_zero, Int.mul_one, pow_split b.scale a.scale h', ← Int.mul_assoc]
    exact (Int.mul_eq_mul_right_iff ha).symm

end Dec

namespace Time
/-- a span built from `i` units reads back as `i` units (week … second), whenever it is representable -/
theorem units_roundtrip (u i d : Int) (hu : u = 604800 ∨ u = 86400 ∨ u = 3600 ∨ u = 60 ∨ u = 1)
    (h : tryUnits u i = some d) : numUnits u d = i := by
  unfold tryUnits at h
  split at h
  · unfold trySeconds at h
    split at h
    · injection h with h; subst h
      unfold numUnits numSeconds nsPerSec
      rw [Int.mul_tdiv_cancel _ (by decide), Int.mul_tdiv_cancel _ (by rcases hu with rfl | rfl | rfl | rfl | rfl <;> decide)]
    · simp at h
  · simp at h
end Time

end Reval
