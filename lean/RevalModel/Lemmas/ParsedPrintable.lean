/-
  Lemmas/ParsedPrintable.lean — every tree the parser returns for a text is one the printer can write and the lexer can
  read back: identifiers produced by the lexer are well-formed names (`lex_tokOK`; `NameOK` covers the literal-prefix
  corner `i5x`, `f5e`, `d1_a` through follower independence, Lemmas/LexCompose `matchNum_short`), literal tokens denote
  leaves whose printed token converts back (`ofTok_leaf`), positional indices fit `u64`, map literals are collected maps
  (`collectMap_idem`).  Floats: by hypothesis on the float leaves of the tree (the library's shortest round-trip text).
-/
import RevalModel.Lemmas.SortedMap
import RevalModel.Lemmas.LexShow
import RevalModel.Lemmas.DisplayRT

namespace Reval.PP
open Reval Reval.Lex Reval.LexC Reval.G

theorem take_countWhile_all (p : Char → Bool) (x : Str) : (x.take (countWhile p x)).all p = true := by
  induction x with
  | nil => simp [countWhile]
  | cons a x ih =>
    simp only [countWhile]
    split
    · rename_i hp; simp [List.take, hp, ih]
    · simp

theorem take_countWhile_len (p : Char → Bool) (x : Str) : (x.take (countWhile p x)).length = countWhile p x := by
  simp [List.length_take, Nat.min_eq_left (countWhile_le p x)]

/-- the identifier the word scanner produces is a well-formed name -/
theorem wordTok_ident (c : Char) (rest n : Str) (hc : isAlpha c = true)
    (hnum : ∀ m, (if (c == 'i' || c == 'f' || c == 'd') = true then matchNum c rest else none) = some m → m < countWhile isIdc rest)
    (h : wordTok c rest = .ident n) : NameOK n := by
  unfold wordTok at h
  split at h
  · cases h
  · rename_i hkw
    simp only [Tok.ident.injEq] at h
    subst h
    refine ⟨c, _, rfl, hc, take_countWhile_all isIdc rest, ?_, by simpa using hkw⟩
    intro hg
    have hg' : (c == 'i' || c == 'f' || c == 'd') = true := by rcases hg with rfl | rfl | rfl <;> rfl
    simp only [hg', if_true] at hnum
    cases ht : rest.take (countWhile isIdc rest) with
    | nil => exact Or.inl (fun a r' e => by cases e)
    | cons a w =>
      by_cases ha : isDigit a = true
      · refine Or.inr ⟨a, w, rest.drop (countWhile isIdc rest), rfl, ha, ?_⟩
        intro m hm
        rw [← ht, List.take_append_drop] at hm
        have := hnum m hm
        rw [← ht, take_countWhile_len]; exact this
      · exact Or.inl (fun a' r' e => by cases e; simpa using ha)

theorem stepWord_ident (c : Char) (rest n : Str) (hc : isAlpha c = true) (h : (stepWord c rest).1 = .ident n) : NameOK n := by
  unfold stepWord at h
  split at h
  · rename_i m hm
    split at h
    · simp only [mkNum] at h
      split at h
      · cases h
      · split at h <;> cases h
    · rename_i hlt
      refine wordTok_ident c rest n hc ?_ h
      intro m' hm'
      rw [hm] at hm'; cases hm'; omega
  · rename_i hnone
    refine wordTok_ident c rest n hc ?_ h
    intro m' hm'
    rw [hnone] at hm'; cases hm'


/-- what the lexer guarantees about a token beyond its slice-safety: an identifier is a well-formed name -/
def TokOK : Tok → Prop
  | .ident n => NameOK n
  | _ => True

theorem stepDigit_not_ident (c : Char) (rest n : Str) : (stepDigit c rest).1 ≠ .ident n := by
  unfold stepDigit
  split
  · rename_i k mk heq
    have hr : matchRadix rest = some (k, mk) := by
      split at heq
      · exact heq
      · cases heq
    obtain ⟨_, _, hm⟩ := matchRadix_wf rest k mk hr
    split
    · rcases hm with rfl | rfl | rfl <;> simp
    · simp
  · simp

theorem step_tokOK (s : Str) (t : Tok) (rest : Str) (h : step s = some (some t, rest)) : TokOK t := by
  cases t
  case ident n =>
    unfold step at h
    repeat' split at h
    all_goals (try (simp at h; done))
    all_goals (simp only [Option.some.injEq, Prod.mk.injEq] at h; obtain ⟨h1, h2⟩ := h)
    · exact stepWord_ident _ _ n ‹_› h1
    · exact absurd h1 (stepDigit_not_ident _ _ n)
    · rename_i hs
      unfold stepString at hs
      split at hs
      · simp only [Option.some.injEq, Prod.mk.injEq] at hs; rw [← hs.1] at h1; cases h1
      · cases hs
    · rename_i hs
      unfold stepPunct at hs
      (repeat' split at hs) <;> (try (cases hs; done)) <;>
        (simp only [Option.some.injEq, Prod.mk.injEq] at hs; rw [← hs.1] at h1; cases h1)
  all_goals trivial

theorem lexAux_tokOK : ∀ (f : Nat) (s : Str) (ts : List Tok), lexAux f s = some ts → ∀ t ∈ ts, TokOK t := by
  intro f
  induction f with
  | zero =>
    intro s ts h
    cases s with
    | nil => rw [lexAux_nil] at h; cases h; intro t ht; cases ht
    | cons c cs => rw [lexAux_zero] at h; cases h
  | succ f ih =>
    intro s ts h
    cases s with
    | nil => rw [lexAux_nil] at h; cases h; intro t ht; cases ht
    | cons c cs =>
      cases hstep : step (c :: cs) with
      | none => rw [lexAux_succ_none f c cs hstep] at h; cases h
      | some pr =>
        obtain ⟨ot, rest⟩ := pr
        cases ot with
        | none => rw [lexAux_succ_skip f c cs rest hstep] at h; exact ih _ _ h
        | some t =>
          rw [lexAux_succ_tok f c cs rest t hstep] at h
          simp only [Option.map_eq_some_iff] at h
          obtain ⟨ts', hts', rfl⟩ := h
          intro x hx
          rcases List.mem_cons.1 hx with rfl | hx
          · exact step_tokOK _ _ _ hstep
          · exact ih _ _ hts' x hx

/-- every identifier token of every text is a well-formed name -/
theorem lex_tokOK (s : Str) (ts : List Tok) (h : lex s = some ts) : ∀ t ∈ ts, TokOK t := lexAux_tokOK _ s ts h


mutual
/-- every float leaf of the tree satisfies `P` -/
def FloatLeaves (P : F64 → Prop) : Expr → Prop
  | .lit v => (match v with | .float f => P f | _ => True)
  | .ref _ => True
  | .sym _ => True
  | .call _ a => FloatLeaves P a
  | .index e _ => FloatLeaves P e
  | .ite c t e => FloatLeaves P c ∧ FloatLeaves P t ∧ FloatLeaves P e
  | .and l r => FloatLeaves P l ∧ FloatLeaves P r
  | .or l r => FloatLeaves P l ∧ FloatLeaves P r
  | .eq l r => FloatLeaves P l ∧ FloatLeaves P r
  | .neq l r => FloatLeaves P l ∧ FloatLeaves P r
  | .un _ e => FloatLeaves P e
  | .bin _ l r => FloatLeaves P l ∧ FloatLeaves P r
  | .vec xs => FloatLeavesL P xs
  | .map kvs => FloatLeavesM P kvs
def FloatLeavesL (P : F64 → Prop) : List Expr → Prop
  | [] => True
  | e :: es => FloatLeaves P e ∧ FloatLeavesL P es
def FloatLeavesM (P : F64 → Prop) : List (Str × Expr) → Prop
  | [] => True
  | (_, e) :: kvs => FloatLeaves P e ∧ FloatLeavesM P kvs
end

variable {o : Oracle} {sf : F64 → Str} {P : F64 → Prop}

theorem floatLeavesL_iff (xs : List Expr) : FloatLeavesL P xs ↔ ∀ e ∈ xs, FloatLeaves P e := by
  induction xs with
  | nil => simp [FloatLeavesL]
  | cons e es ih => simp [FloatLeavesL, ih]
theorem floatLeavesM_iff (kvs : List (Str × Expr)) : FloatLeavesM P kvs ↔ ∀ kv ∈ kvs, FloatLeaves P kv.2 := by
  induction kvs with
  | nil => simp [FloatLeavesM]
  | cons kv kvs ih => obtain ⟨k, e⟩ := kv; simp [FloatLeavesM, ih]
theorem printableL_iff (xs : List Expr) : PrintableL o sf xs ↔ ∀ e ∈ xs, Printable o sf e := by
  induction xs with
  | nil => simp [PrintableL]
  | cons e es ih => simp [PrintableL, ih]
theorem printableM_iff (kvs : List (Str × Expr)) : PrintableM o sf kvs ↔ ∀ kv ∈ kvs, Printable o sf kv.2 := by
  induction kvs with
  | nil => simp [PrintableM]
  | cons kv kvs ih => obtain ⟨k, e⟩ := kv; simp [PrintableM, ih]
theorem textOKL_iff (xs : List Expr) : TextOKL sf xs ↔ ∀ e ∈ xs, TextOK sf e := by
  induction xs with
  | nil => simp [TextOKL]
  | cons e es ih => simp [TextOKL, ih]
theorem textOKM_iff (kvs : List (Str × Expr)) : TextOKM sf kvs ↔ ∀ kv ∈ kvs, NameOK kv.1 ∧ TextOK sf kv.2 := by
  induction kvs with
  | nil => simp [TextOKM]
  | cons kv kvs ih =>
    obtain ⟨k, e⟩ := kv
    simp only [TextOKM, ih, List.mem_cons, forall_eq_or_imp, and_assoc]


/-- what is assumed of the decimal library for literals the model does not convert itself (more than 96 bits of digits
    or more than 28 fraction digits: `Decimal::from_str` rounds or fails): an accepted literal denotes a decimal in normal
    form.  (For the literals the model converts — the others — this is proved: `parseDecimal_wf`.) -/
def OracleDecOK (o : Oracle) : Prop :=
  ∀ b v, o .strToDec [.str b] = some (some v) → ∃ d, v = .dec d ∧ DecWF d

theorem checked_some {m n : Int} (h : I128.checked m = some n) : I128.inRange n = true := by
  unfold I128.checked at h
  split at h
  · cases h; assumption
  · cases h

theorem parseI128_inRange {b : Str} {n : Int} (h : Str.parseI128 b = some n) : I128.inRange n = true := by
  unfold Str.parseI128 at h
  simp only [] at h
  split at h <;> (split at h <;> first | cases h | exact checked_some h)

theorem parseRadix_inRange {r : Nat} {b : Str} {n : Int} (h : Lit.parseRadix r b = some n) : I128.inRange n = true := by
  unfold Lit.parseRadix at h
  split at h
  · cases h
  · split at h
    · exact checked_some h
    · cases h

theorem parseDecimal_wf {b : Str} {d : Dec} (h : Lit.parseDecimal b = some d) : DecWF d := by
  unfold Lit.parseDecimal at h
  simp only [] at h
  split at h
  · rename_i hc
    simp only [Bool.and_eq_true, decide_eq_true_eq] at hc
    cases h
    refine ⟨hc.2, hc.1, ?_⟩
    simp only [Bool.and_eq_true, bne_iff_ne, ne_eq]
    exact fun h => h.2
  · cases h

/-- the value of a literal token is a leaf the printer can write and the lexer reads back (floats: by hypothesis) -/
theorem ofTok_leaf (hdec : OracleDecOK o) (t : Tok) (v : Value) (x : List Tok) (hl : IsLitTok t) (h : Lit.ofTok o t = .ok v x)
    (hf : ∀ f, v = .float f → LitOK o sf (.float f) ∧ LitText sf (.float f)) : LitOK o sf v ∧ LitText sf v := by
  cases t <;> simp only [IsLitTok] at hl <;> simp only [Lit.ofTok] at h
  case str raw =>
    split at h
    · cases h
    · split at h
      · cases h; exact ⟨str_token_value o _, trivial⟩
      · cases h
  case int s =>
    split at h
    · cases h
    · split at h
      · rename_i n hn; cases h; exact ⟨int_token_value o n (parseI128_inRange hn), trivial⟩
      · cases h
  case hex s =>
    split at h
    · cases h
    · split at h
      · rename_i n hn; cases h; exact ⟨int_token_value o n (parseRadix_inRange hn), trivial⟩
      · cases h
  case oct s =>
    split at h
    · cases h
    · split at h
      · rename_i n hn; cases h; exact ⟨int_token_value o n (parseRadix_inRange hn), trivial⟩
      · cases h
  case bin s =>
    split at h
    · cases h
    · split at h
      · rename_i n hn; cases h; exact ⟨int_token_value o n (parseRadix_inRange hn), trivial⟩
      · cases h
  case float s =>
    split at h
    · cases h
    · cases h; exact hf _ rfl
  case dec s =>
    split at h
    · cases h
    · split at h
      · rename_i d hd; cases h; exact ⟨dec_token_value o d (parseDecimal_wf hd), trivial⟩
      · split at h
        · rename_i b v' hv
          cases h
          obtain ⟨d, rfl, hd⟩ := hdec _ _ hv
          exact ⟨dec_token_value o d hd, trivial⟩
        · cases h
        · cases h


theorem binOpAt_mk {k : Nat} {t : Tok} {mk : Expr → Expr → Expr} (h : binOpAt k t = some mk) :
    mk = Expr.and ∨ mk = Expr.or ∨ mk = Expr.eq ∨ mk = Expr.neq ∨ ∃ op, mk = Expr.bin op := by
  unfold binOpAt at h
  split at h
  all_goals first
    | cases h
    | (simp only [eqOpOf, addOpOf, multOpOf, bitOpOf] at h; repeat' split at h)
    | (repeat' split at h)
  all_goals (try cases h)
  all_goals first
    | exact Or.inl rfl
    | exact Or.inr (Or.inl rfl)
    | exact Or.inr (Or.inr (Or.inl (by funext l r; rfl)))
    | exact Or.inr (Or.inr (Or.inr (Or.inl (by funext l r; rfl))))
    | exact Or.inr (Or.inr (Or.inr (Or.inr ⟨_, by funext l r; rfl⟩)))
    | exact Or.inr (Or.inr (Or.inr (Or.inr ⟨_, rfl⟩)))

section induction
variable (o) (sf) (P)

def Good (e : Expr) : Prop := FloatLeaves P e → Printable o sf e ∧ TextOK sf e
def MB (e : Expr) (T : List Tok) : Prop := (∀ t ∈ T, TokOK t) → Good o sf P e
def MR (_k : Nat) (e : Expr) (T : List Tok) : Prop := (∀ t ∈ T, TokOK t) → Good o sf P e
def ML (xs : List Expr) (T : List Tok) : Prop := (∀ t ∈ T, TokOK t) → ∀ e ∈ xs, Good o sf P e
def MM (kvs : List (Str × Expr)) (T : List Tok) : Prop := (∀ t ∈ T, TokOK t) → ∀ kv ∈ kvs, NameOK kv.1 ∧ Good o sf P kv.2

end induction

theorem good_bin2 {l r : Expr} {mk : Expr → Expr → Expr}
    (hmk : mk = Expr.and ∨ mk = Expr.or ∨ mk = Expr.eq ∨ mk = Expr.neq ∨ ∃ op, mk = Expr.bin op)
    (hl : Good o sf P l) (hr : Good o sf P r) : Good o sf P (mk l r) := by
  intro hf
  rcases hmk with rfl | rfl | rfl | rfl | ⟨op, rfl⟩ <;>
    (simp only [FloatLeaves] at hf
     have a := hl hf.1
     have b := hr hf.2
     simp only [Printable, TextOK]
     exact ⟨⟨a.1, b.1⟩, a.2, b.2⟩)

variable (hdec : OracleDecOK o) (hP : ∀ f, P f → LitOK o sf (.float f) ∧ LitText sf (.float f))
include hdec hP

theorem parsed_good {k : Nat} {e : Expr} {T : List Tok} (h : R o k e T) : MR o sf P k e T := by
  refine @R.rec o (fun e T _ => MB o sf P e T) (fun k e T _ => MR o sf P k e T) (fun xs T _ => ML o sf P xs T)
    (fun kvs T _ => MM o sf P kvs T) ?litTok ?litTrue ?litFalse ?litNone ?ref ?sym ?indexKey ?indexPos ?call ?func ?ite ?bin
    ?contains ?isIn ?neg ?not ?vec ?map ?bare ?paren ?lnil ?llast ?lcons ?mnil ?mlast ?mcons k e T h
  case litTok =>
    intro t v x hl h _ hf
    simp only [Printable, TextOK]
    refine ofTok_leaf hdec t v x hl h ?_
    intro f e; subst e
    exact hP f (by simpa [FloatLeaves] using hf)
  case litTrue => intro _ _; simp [Printable, TextOK, LitOK, LitText]
  case litFalse => intro _ _; simp [Printable, TextOK, LitOK, LitText]
  case litNone => intro _ _; simp [Printable, TextOK, LitOK, LitText]
  case ref =>
    intro n ht _
    simp only [Printable, TextOK, true_and]
    exact ht (.ident n) (by simp)
  case sym =>
    intro n ht _
    simp only [Printable, TextOK, true_and]
    exact ht (.ident n) (by simp)
  case indexKey =>
    intro e T k _ ih ht hf
    have a := ih (fun t h => ht t (by simp [h])) (by simpa [FloatLeaves] using hf)
    simp only [Printable, TextOK]
    exact ⟨a.1, ht (.ident k) (by simp), a.2⟩
  case indexPos =>
    intro e T ds _ hle ih ht hf
    have a := ih (fun t h => ht t (by simp [h])) (by simpa [FloatLeaves] using hf)
    simp only [Printable, TextOK]
    exact ⟨⟨a.1, hle⟩, a.2⟩
  case call =>
    intro f a T _ ih ht hf
    have x := ih (fun t h => ht t (by simp [h])) (by simpa [FloatLeaves] using hf)
    simp only [Printable, TextOK]
    exact ⟨x.1, ht (.ident f) (by simp), x.2⟩
  case func =>
    intro k op e T _ _ ih ht hf
    have x := ih (fun t h => ht t (by simp [h])) (by simpa [FloatLeaves] using hf)
    simp only [Printable, TextOK]
    exact x
  case ite =>
    intro c t e Tc Tt Te _ _ _ i1 i2 i3 ht hf
    simp only [FloatLeaves] at hf
    have a := i1 (fun t h => ht t (by simp [kwIf, h])) hf.1
    have b := i2 (fun t h => ht t (by simp [h])) hf.2.1
    have d := i3 (fun t h => ht t (by simp [h])) hf.2.2
    simp only [Printable, TextOK]
    exact ⟨⟨a.1, b.1, d.1⟩, a.2, b.2, d.2⟩
  case bin =>
    intro k t mk l r Tl Tr _ _ hop _ _ i1 i2 ht
    exact good_bin2 (binOpAt_mk hop) (i1 (fun t h => ht t (by simp [h]))) (i2 (fun t h => ht t (by simp [h])))
  case contains =>
    intro l r Tl Tr _ _ i1 i2 ht
    exact good_bin2 (mk := Expr.bin .contains) (Or.inr (Or.inr (Or.inr (Or.inr ⟨_, rfl⟩))))
      (i1 (fun t h => ht t (by simp [h]))) (i2 (fun t h => ht t (by simp [h])))
  case isIn =>
    intro l r Tl Tr _ _ i1 i2 ht
    exact good_bin2 (mk := Expr.bin .contains) (Or.inr (Or.inr (Or.inr (Or.inr ⟨_, rfl⟩))))
      (i1 (fun t h => ht t (by simp [h]))) (i2 (fun t h => ht t (by simp [h])))
  case neg =>
    intro e T _ ih ht hf
    have x := ih (fun t h => ht t (by simp [h])) (by simpa [FloatLeaves] using hf)
    simp only [Printable, TextOK]; exact x
  case not =>
    intro e T _ ih ht hf
    have x := ih (fun t h => ht t (by simp [h])) (by simpa [FloatLeaves] using hf)
    simp only [Printable, TextOK]; exact x
  case vec =>
    intro xs T _ ih ht hf
    have x := ih (fun t h => ht t (by simp [h]))
    simp only [FloatLeaves, floatLeavesL_iff] at hf
    simp only [Printable, TextOK, printableL_iff, textOKL_iff]
    exact ⟨fun e he => (x e he (hf e he)).1, fun e he => (x e he (hf e he)).2⟩
  case map =>
    intro kvs T _ ih ht hf
    have x := ih (fun t h => ht t (by simp [h]))
    simp only [FloatLeaves, floatLeavesM_iff] at hf
    simp only [Printable, TextOK, printableM_iff, textOKM_iff]
    refine ⟨⟨fun kv hkv => ((x kv (mem_collectMap kvs kv hkv)).2 (hf kv hkv)).1, collectMap_idem kvs⟩, fun kv hkv => ?_⟩
    have y := x kv (mem_collectMap kvs kv hkv)
    exact ⟨y.1, (y.2 (hf kv hkv)).2⟩
  case bare => intro k e T _ _ ih; exact ih
  case paren => intro k e T _ ih ht; exact ih (fun t h => ht t (by simp [h]))
  case lnil => intro _ e he; cases he
  case llast =>
    intro e T _ ih ht e' he'
    simp only [List.mem_singleton] at he'; subst he'
    exact ih (fun t h => ht t (by simp [h]))
  case lcons =>
    intro e es T Ts _ _ i1 i2 ht e' he'
    rcases List.mem_cons.1 he' with rfl | he'
    · exact i1 (fun t h => ht t (by simp [h]))
    · exact i2 (fun t h => ht t (by simp [h])) e' he'
  case mnil => intro _ kv hkv; cases hkv
  case mlast =>
    intro k e T _ ih ht kv hkv
    simp only [List.mem_singleton] at hkv; subst hkv
    exact ⟨ht (.ident k) (by simp), ih (fun t h => ht t (by simp [h]))⟩
  case mcons =>
    intro k e es T Ts _ _ i1 i2 ht kv hkv
    rcases List.mem_cons.1 hkv with rfl | hkv
    · exact ⟨ht (.ident k) (by simp), i1 (fun t h => ht t (by simp [h]))⟩
    · exact i2 (fun t h => ht t (by simp [h])) kv hkv

end Reval.PP
