/-
  Lemmas/Table.lean — the implementation-shaped operators equal the declarative operator table:
  `applyBin = tableBin`, `applyUn = tableUn` (one lemma per operator, then the dispatch).
-/
import RevalModel.Spec.OperatorTable

namespace Reval

section bin
variable (o : Oracle)

local macro "table_bin" f:ident a:ident b:ident : tactic =>
  `(tactic| (cases $a:ident <;> cases $b:ident <;>
      simp [$f:ident, tableBin, BinOp.sig, BinOp.noneRule, cellBin, intCell, floatCell, decCell, boolCell, cmpInt,
            Value.ty, ofOpt, Ty.all] <;> (try split) <;> simp_all))

theorem mult_eq_table (a b : Value) : Impl.mult o a b = tableBin o .mult a b := by table_bin Impl.mult a b
theorem div_eq_table (a b : Value) : Impl.div o a b = tableBin o .div a b := by table_bin Impl.div a b
theorem rem_eq_table (a b : Value) : Impl.rem o a b = tableBin o .rem a b := by table_bin Impl.rem a b
theorem add_eq_table (a b : Value) : Impl.add o a b = tableBin o .add a b := by table_bin Impl.add a b
theorem sub_eq_table (a b : Value) : Impl.sub o a b = tableBin o .sub a b := by table_bin Impl.sub a b
theorem gt_eq_table (a b : Value) : Impl.gt a b = tableBin o .gt a b := by table_bin Impl.gt a b
theorem gte_eq_table (a b : Value) : Impl.gte a b = tableBin o .gte a b := by table_bin Impl.gte a b
theorem lt_eq_table (a b : Value) : Impl.lt a b = tableBin o .lt a b := by table_bin Impl.lt a b
theorem lte_eq_table (a b : Value) : Impl.lte a b = tableBin o .lte a b := by table_bin Impl.lte a b
theorem bitAnd_eq_table (a b : Value) : Impl.bitwiseAnd a b = tableBin o .bitAnd a b := by table_bin Impl.bitwiseAnd a b
theorem bitOr_eq_table (a b : Value) : Impl.bitwiseOr a b = tableBin o .bitOr a b := by table_bin Impl.bitwiseOr a b
theorem bitXor_eq_table (a b : Value) : Impl.bitwiseXor a b = tableBin o .bitXor a b := by table_bin Impl.bitwiseXor a b
theorem contains_eq_table (a b : Value) : Impl.contains a b = tableBin o .contains a b := by table_bin Impl.contains a b

theorem applyBin_eq_table (op : BinOp) (a b : Value) : applyBin o op a b = tableBin o op a b := by
  cases op <;> simp only [applyBin]
  · exact mult_eq_table o a b
  · exact div_eq_table o a b
  · exact rem_eq_table o a b
  · exact add_eq_table o a b
  · exact sub_eq_table o a b
  · exact gt_eq_table o a b
  · exact gte_eq_table o a b
  · exact lt_eq_table o a b
  · exact lte_eq_table o a b
  · exact bitAnd_eq_table o a b
  · exact bitOr_eq_table o a b
  · exact bitXor_eq_table o a b
  · exact contains_eq_table o a b

end bin

section un
variable (o : Oracle)

local macro "table_un" f:ident v:ident : tactic =>
  `(tactic| (cases $v:ident <;>
      simp [$f:ident, tableUn, UnOp.sig, cellUn, Value.ty, ofOpt, Ty.all, Impl.mkDuration] <;> (try split) <;> simp_all))

theorem not_eq_table (v : Value) : Impl.not v = tableUn o .not v := by table_un Impl.not v
theorem neg_eq_table (v : Value) : Impl.neg v = tableUn o .neg v := by table_un Impl.neg v
theorem some_eq_table (v : Value) : Impl.some v = tableUn o .some v := by table_un Impl.some v
theorem isNone_eq_table (v : Value) : Impl.isNone v = tableUn o .isNone v := by table_un Impl.isNone v
theorem toInt_eq_table (v : Value) : Impl.toInt v = tableUn o .toInt v := by table_un Impl.toInt v
theorem toFloat_eq_table (v : Value) : Impl.toFloat o v = tableUn o .toFloat v := by table_un Impl.toFloat v
theorem toDec_eq_table (v : Value) : Impl.toDec o v = tableUn o .toDec v := by table_un Impl.toDec v
theorem dateTime_eq_table (v : Value) : Impl.dateTime o v = tableUn o .dateTime v := by table_un Impl.dateTime v
theorem duration_eq_table (v : Value) : Impl.duration v = tableUn o .duration v := by table_un Impl.duration v
theorem upper_eq_table (v : Value) : Impl.upper o v = tableUn o .upper v := by table_un Impl.upper v
theorem lower_eq_table (v : Value) : Impl.lower o v = tableUn o .lower v := by table_un Impl.lower v
theorem trim_eq_table (v : Value) : Impl.trim v = tableUn o .trim v := by table_un Impl.trim v
theorem round_eq_table (v : Value) : Impl.round o v = tableUn o .round v := by table_un Impl.round v
theorem floor_eq_table (v : Value) : Impl.floor o v = tableUn o .floor v := by table_un Impl.floor v
theorem fract_eq_table (v : Value) : Impl.fract o v = tableUn o .fract v := by table_un Impl.fract v
theorem year_eq_table (v : Value) : Impl.year v = tableUn o .year v := by table_un Impl.year v
theorem month_eq_table (v : Value) : Impl.month v = tableUn o .month v := by table_un Impl.month v
theorem week_eq_table (v : Value) : Impl.week v = tableUn o .week v := by table_un Impl.week v
theorem day_eq_table (v : Value) : Impl.day v = tableUn o .day v := by table_un Impl.day v
theorem hour_eq_table (v : Value) : Impl.hour v = tableUn o .hour v := by table_un Impl.hour v
theorem minute_eq_table (v : Value) : Impl.minute v = tableUn o .minute v := by table_un Impl.minute v
theorem second_eq_table (v : Value) : Impl.second v = tableUn o .second v := by table_un Impl.second v

theorem applyUn_eq_table (op : UnOp) (v : Value) : applyUn o op v = tableUn o op v := by
  cases op <;> simp only [applyUn]
  · exact not_eq_table o v
  · exact neg_eq_table o v
  · exact some_eq_table o v
  · exact isNone_eq_table o v
  · exact toInt_eq_table o v
  · exact toFloat_eq_table o v
  · exact toDec_eq_table o v
  · exact dateTime_eq_table o v
  · exact duration_eq_table o v
  · exact upper_eq_table o v
  · exact lower_eq_table o v
  · exact trim_eq_table o v
  · exact round_eq_table o v
  · exact floor_eq_table o v
  · exact fract_eq_table o v
  · exact year_eq_table o v
  · exact month_eq_table o v
  · exact week_eq_table o v
  · exact day_eq_table o v
  · exact hour_eq_table o v
  · exact minute_eq_table o v
  · exact second_eq_table o v

end un
end Reval
