import RevalModel.Prim.Basic
import RevalModel.Prim.Num
import RevalModel.Prim.DecTime
import RevalModel.Impl.Eval
import RevalModel.Spec.OperatorTable
import RevalModel.Impl.RuleSet
