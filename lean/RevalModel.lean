import RevalModel.Prim.Basic
import RevalModel.Prim.Num
import RevalModel.Prim.DecTime
import RevalModel.Impl.Eval
