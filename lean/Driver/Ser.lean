/-
  Driver/Ser.lean — protocol commands for the serializer (C13) and `RuleSet::evaluate(&T)` (C09).
-/
import Driver.Codec
import Driver.Conv
import RevalModel.Impl.Ser
import RevalModel.Spec.Json

namespace Reval.Codec
open Reval

partial def decSerVal : Sexp → Option SerVal
  | .list [.atom "sbool", a] => (atomNat a).map (fun n => .bool (n == 1))
  | .list [.atom "sint", .atom k, n] => do let k ← decIntKind k; let n ← atomInt n; pure (.int k n)
  | .list [.atom "sf32", .atom h] => (parseHexNat h).map (fun n => .f32 (UInt32.ofNat n))
  | .list [.atom "sf64", .atom h] => (parseHexNat h).map (fun n => .f64 ⟨UInt64.ofNat n⟩)
  | .list [.atom "schar", c] => (atomNat c).map (fun n => .char (Char.ofNat n))
  | .list [.atom "sstr", s] => (atomStr s).map .str
  | .list (.atom "sbytes" :: bs) => (bs.mapM atomNat).map .bytes
  | .list [.atom "snone"] => some .none
  | .list [.atom "ssome", v] => (decSerVal v).map .some
  | .list [.atom "sunit"] => some .unit
  | .list [.atom "sunitstruct", n] => (atomStr n).map .unitStruct
  | .list [.atom "sunitvariant", n, v] => do let n ← atomStr n; let v ← atomStr v; pure (.unitVariant n v)
  | .list [.atom "snewtypestruct", n, v] => do let n ← atomStr n; let v ← decSerVal v; pure (.newtypeStruct n v)
  | .list [.atom "snewtypevariant", n, va, v] => do
      let n ← atomStr n; let va ← atomStr va; let v ← decSerVal v; pure (.newtypeVariant n va v)
  | .list (.atom "sseq" :: xs) => (xs.mapM decSerVal).map .seq
  | .list (.atom "stuple" :: xs) => (xs.mapM decSerVal).map .tuple
  | .list (.atom "stuplestruct" :: n :: xs) => do let n ← atomStr n; let xs ← xs.mapM decSerVal; pure (.tupleStruct n xs)
  | .list (.atom "stuplevariant" :: n :: va :: xs) => do
      let n ← atomStr n; let va ← atomStr va; let xs ← xs.mapM decSerVal; pure (.tupleVariant n va xs)
  | .list (.atom "smap" :: kvs) => (kvs.mapM (fun (x : Sexp) => match x with
      | Sexp.list [k, v] => do let k ← decSerVal k; let v ← decSerVal v; pure (k, v)
      | _ => none)).map .map
  | .list (.atom "sstruct" :: n :: fs) => do
      let n ← atomStr n
      let fs ← fs.mapM (fun (x : Sexp) => match x with
        | Sexp.list [k, v] => do let k ← atomStr k; let v ← decSerVal v; pure (k, v)
        | _ => none)
      pure (.struct n fs)
  | .list (.atom "sstructvariant" :: n :: va :: fs) => do
      let n ← atomStr n; let va ← atomStr va
      let fs ← fs.mapM (fun (x : Sexp) => match x with
        | Sexp.list [k, v] => do let k ← atomStr k; let v ← decSerVal v; pure (k, v)
        | _ => none)
      pure (.structVariant n va fs)
  | .list [.atom "sfail", m] => (atomStr m).map .fail
  | _ => none

partial def encJson : Json → String
  | .null => "(jnull)"
  | .bool b => if b then "(jbool 1)" else "(jbool 0)"
  | .int n => "(jint " ++ toString n ++ ")"
  | .float f => "(jfloat " ++ natHex16 f.bits.toNat ++ ")"
  | .str s => "(jstr " ++ hex s ++ ")"
  | .arr xs => "(jarr" ++ String.join (xs.map (fun x => " " ++ encJson x)) ++ ")"
  | .obj kvs => "(jobj" ++ String.join (kvs.map (fun (k, v) => " (" ++ hex k ++ " " ++ encJson v ++ ")")) ++ ")"
  | .unrep => "(junrep)"

/-- `json\tSERVAL` → the model of `serde_json::to_value` on the input, TAB, the JSON reading of the model's image
    (`-` when the serializer fails) -/
def handleJson (arg : String) : String :=
  match parse arg >>= decSerVal with
  | some v =>
    encJson (JsonSpec.jsonOf v) ++ "\t" ++
      (match Ser.serialize v with
       | .ok x => encJson (JsonSpec.toJson x)
       | _ => "-")
  | none => "bad-request json"

def handleSer (arg : String) : String :=
  match parse arg >>= decSerVal with
  | some v => encRes encValue (Ser.serialize v)
  | none => "bad-request ser"

/-- `evalser\t(rules E…)\tSERVAL\tENV\tORACLE` = `RuleSet::evaluate(&T)` -/
def handleEvalSer (rules input env oracle : String) : String :=
  match parse rules, parse input >>= decSerVal, parse oracle >>= decOracle with
  | some (.list (.atom "rules" :: rs)), some input, some o =>
    match rs.mapM decExpr, parse env >>= decEnv .none o with
    | some rs, some env =>
      match evaluate env rs input with
      | .ok (outs, st, evs) =>
        "(outcomes" ++ String.join (outs.map (fun r => " " ++ encRes encValue r)) ++ ")\t" ++ encEvents evs ++ "\t" ++ toString st.calls
      | .err e => "EVALERR " ++ encErr e
      | .panic _ => "PANIC"
      | .frontier _ _ => "frontier"
    | _, _ => "bad-request evalser"
  | _, _, _ => "bad-request evalser"

end Reval.Codec
