/-
  Driver/Codec.lean — s-expression codec of the line protocol (trusted: a bug here can hide a
  disagreement, it cannot make a theorem true).  Not part of the model; `partial` is fine here.
-/
import RevalModel.Impl.Eval

namespace Reval.Codec
open Reval

inductive Sexp where
  | atom (s : String)
  | list (xs : List Sexp)
deriving Inhabited, Repr

/-- tokens: "(" ")" and atoms -/
def tokenize (s : String) : Array String := Id.run do
  let mut out : Array String := #[]
  let mut cur : String := ""
  for c in s.toList do
    if c == '(' || c == ')' then
      if !cur.isEmpty then out := out.push cur; cur := ""
      out := out.push (String.singleton c)
    else if c == ' ' || c == '\n' || c == '\r' then
      if !cur.isEmpty then out := out.push cur; cur := ""
    else cur := cur.push c
  if !cur.isEmpty then out := out.push cur
  return out

partial def parseAt (toks : Array String) (i : Nat) : Option (Sexp × Nat) :=
  if h : i < toks.size then
    let t := toks[i]
    if t == "(" then
      let rec loop (j : Nat) (acc : Array Sexp) : Option (Sexp × Nat) :=
        if h2 : j < toks.size then
          if toks[j] == ")" then some (.list acc.toList, j + 1)
          else match parseAt toks j with
            | some (x, j') => loop j' (acc.push x)
            | none => none
        else none
      loop (i + 1) #[]
    else if t == ")" then none
    else some (.atom t, i + 1)
  else none

def parse (s : String) : Option Sexp :=
  match parseAt (tokenize s) 0 with
  | some (x, _) => some x
  | none => none

def hexVal (c : Char) : Option Nat :=
  if '0' ≤ c && c ≤ '9' then some (c.toNat - '0'.toNat)
  else if 'a' ≤ c && c ≤ 'f' then some (c.toNat - 'a'.toNat + 10)
  else if 'A' ≤ c && c ≤ 'F' then some (c.toNat - 'A'.toNat + 10)
  else none

def unhexBytes (s : String) : Option ByteArray :=
  let rec go : List Char → ByteArray → Option ByteArray
    | [], acc => some acc
    | a :: b :: r, acc =>
      match hexVal a, hexVal b with
      | some x, some y => go r (acc.push (UInt8.ofNat (x * 16 + y)))
      | _, _ => none
    | _, _ => none
  go s.toList ByteArray.empty

/-- "-" is the empty string; otherwise UTF-8 bytes in hex -/
def unhex (s : String) : Option Str :=
  if s == "-" then some []
  else match unhexBytes s with
    | some b => (String.fromUTF8? b).map String.toList
    | none => none

def hexDigit (n : Nat) : Char := if n < 10 then Char.ofNat (48 + n) else Char.ofNat (87 + n)

def hex (s : Str) : String :=
  if s.isEmpty then "-"
  else
    let bytes := (String.ofList s).toUTF8
    String.ofList (bytes.toList.foldr (fun b acc => hexDigit (b.toNat / 16) :: hexDigit (b.toNat % 16) :: acc) [])

def parseHexNat (s : String) : Option Nat :=
  s.toList.foldl (fun acc c => match acc, hexVal c with
    | some a, some d => some (a * 16 + d)
    | _, _ => none) (some 0)

def natHex16 (n : Nat) : String :=
  String.ofList ((List.range 16).reverse.map (fun i => hexDigit ((n / 16 ^ i) % 16)))

def atomInt : Sexp → Option Int
  | .atom s => s.toInt?
  | _ => none
def atomNat : Sexp → Option Nat
  | .atom s => s.toNat?
  | _ => none
def atomStr : Sexp → Option Str
  | .atom s => unhex s
  | _ => none

def nsOf (secs : Int) (nanos : Int) : Int := secs * 1000000000 + nanos

partial def decValue : Sexp → Option Value
  | .list [.atom "str", a] => (atomStr a).map .str
  | .list [.atom "int", a] => (atomInt a).map .int
  | .list [.atom "float", .atom h] => (parseHexNat h).map (fun n => .float ⟨UInt64.ofNat n⟩)
  | .list [.atom "dec", n, m, s] => do
      let n ← atomNat n; let m ← atomNat m; let s ← atomNat s
      pure (.dec ⟨n == 1, m, s⟩)
  | .list [.atom "bool", a] => (atomNat a).map (fun n => .bool (n == 1))
  | .list [.atom "dt", s, n] => do let s ← atomInt s; let n ← atomInt n; pure (.dateTime (nsOf s n))
  | .list [.atom "dur", s, n] => do let s ← atomInt s; let n ← atomInt n; pure (.duration (nsOf s n))
  | .list (.atom "vec" :: xs) => (xs.mapM decValue).map .vec
  | .list (.atom "map" :: xs) => (xs.mapM (fun (x : Sexp) => match x with
      | Sexp.list [k, v] => do let k ← atomStr k; let v ← decValue v; pure (k, v)
      | _ => none)).map .map
  | .list [.atom "none"] => some .none
  | _ => none

partial def encValue : Value → String
  | .str s => "(str " ++ hex s ++ ")"
  | .int i => "(int " ++ toString i ++ ")"
  | .float f => "(float " ++ natHex16 f.bits.toNat ++ ")"
  | .dec d => "(dec " ++ (if d.neg then "1" else "0") ++ " " ++ toString d.mant ++ " " ++ toString d.scale ++ ")"
  | .bool b => if b then "(bool 1)" else "(bool 0)"
  | .dateTime ns => "(dt " ++ toString (ns / 1000000000) ++ " " ++ toString (ns % 1000000000) ++ ")"
  | .duration ns => "(dur " ++ toString (ns / 1000000000) ++ " " ++ toString (ns % 1000000000) ++ ")"
  | .vec xs => "(vec" ++ String.join (xs.map (fun x => " " ++ encValue x)) ++ ")"
  | .map kvs => "(map" ++ String.join (kvs.map (fun (k, v) => " (" ++ hex k ++ " " ++ encValue v ++ ")")) ++ ")"
  | .none => "(none)"

def decTy : String → Option Ty
  | "str" => some .str | "int" => some .int | "float" => some .float | "dec" => some .dec | "bool" => some .bool
  | "datetime" => some .dateTime | "duration" => some .duration | "vec" => some .vec | "map" => some .map
  | "none" => some .none
  | _ => none

def decUnOp : String → Option UnOp
  | "not" => some .not | "neg" => some .neg | "some" => some .some | "isnone" => some .isNone
  | "toint" => some .toInt | "tofloat" => some .toFloat | "todec" => some .toDec
  | "datetime" => some .dateTime | "duration" => some .duration
  | "upper" => some .upper | "lower" => some .lower | "trim" => some .trim
  | "round" => some .round | "floor" => some .floor | "fract" => some .fract
  | "year" => some .year | "month" => some .month | "week" => some .week | "day" => some .day
  | "hour" => some .hour | "minute" => some .minute | "second" => some .second
  | _ => none

def encUnOp : UnOp → String
  | .not => "not" | .neg => "neg" | .some => "some" | .isNone => "isnone"
  | .toInt => "toint" | .toFloat => "tofloat" | .toDec => "todec"
  | .dateTime => "datetime" | .duration => "duration"
  | .upper => "upper" | .lower => "lower" | .trim => "trim"
  | .round => "round" | .floor => "floor" | .fract => "fract"
  | .year => "year" | .month => "month" | .week => "week" | .day => "day"
  | .hour => "hour" | .minute => "minute" | .second => "second"

def decBinOp : String → Option BinOp
  | "mult" => some .mult | "div" => some .div | "rem" => some .rem | "add" => some .add | "sub" => some .sub
  | "gt" => some .gt | "gte" => some .gte | "lt" => some .lt | "lte" => some .lte
  | "bitand" => some .bitAnd | "bitor" => some .bitOr | "bitxor" => some .bitXor | "contains" => some .contains
  | _ => none

def encBinOp : BinOp → String
  | .mult => "mult" | .div => "div" | .rem => "rem" | .add => "add" | .sub => "sub"
  | .gt => "gt" | .gte => "gte" | .lt => "lt" | .lte => "lte"
  | .bitAnd => "bitand" | .bitOr => "bitor" | .bitXor => "bitxor" | .contains => "contains"

partial def decExpr : Sexp → Option Expr
  | .list [.atom "lit", v] => (decValue v).map .lit
  | .list [.atom "ref", n] => (atomStr n).map .ref
  | .list [.atom "sym", n] => (atomStr n).map .sym
  | .list [.atom "idxk", e, k] => do let e ← decExpr e; let k ← atomStr k; pure (.index e (.key k))
  | .list [.atom "idxn", e, n] => do let e ← decExpr e; let n ← atomNat n; pure (.index e (.pos n))
  | .list [.atom "call", f, a] => do let f ← atomStr f; let a ← decExpr a; pure (.call f a)
  | .list [.atom "if", c, t, e] => do let c ← decExpr c; let t ← decExpr t; let e ← decExpr e; pure (.ite c t e)
  | .list [.atom "and", l, r] => do let l ← decExpr l; let r ← decExpr r; pure (.and l r)
  | .list [.atom "or", l, r] => do let l ← decExpr l; let r ← decExpr r; pure (.or l r)
  | .list [.atom "eq", l, r] => do let l ← decExpr l; let r ← decExpr r; pure (.eq l r)
  | .list [.atom "neq", l, r] => do let l ← decExpr l; let r ← decExpr r; pure (.neq l r)
  | .list [.atom "un", .atom op, e] => do let op ← decUnOp op; let e ← decExpr e; pure (.un op e)
  | .list [.atom "bin", .atom op, l, r] => do let op ← decBinOp op; let l ← decExpr l; let r ← decExpr r; pure (.bin op l r)
  | .list (.atom "vec" :: xs) => (xs.mapM decExpr).map .vec
  | .list (.atom "map" :: xs) => (xs.mapM (fun (x : Sexp) => match x with
      | Sexp.list [k, v] => do let k ← atomStr k; let v ← decExpr v; pure (k, v)
      | _ => none)).map .map
  | _ => none

partial def encExpr : Expr → String
  | .lit v => "(lit " ++ encValue v ++ ")"
  | .ref n => "(ref " ++ hex n ++ ")"
  | .sym n => "(sym " ++ hex n ++ ")"
  | .index e (.key k) => "(idxk " ++ encExpr e ++ " " ++ hex k ++ ")"
  | .index e (.pos n) => "(idxn " ++ encExpr e ++ " " ++ toString n ++ ")"
  | .call f a => "(call " ++ hex f ++ " " ++ encExpr a ++ ")"
  | .ite c t e => "(if " ++ encExpr c ++ " " ++ encExpr t ++ " " ++ encExpr e ++ ")"
  | .and l r => "(and " ++ encExpr l ++ " " ++ encExpr r ++ ")"
  | .or l r => "(or " ++ encExpr l ++ " " ++ encExpr r ++ ")"
  | .eq l r => "(eq " ++ encExpr l ++ " " ++ encExpr r ++ ")"
  | .neq l r => "(neq " ++ encExpr l ++ " " ++ encExpr r ++ ")"
  | .un op e => "(un " ++ encUnOp op ++ " " ++ encExpr e ++ ")"
  | .bin op l r => "(bin " ++ encBinOp op ++ " " ++ encExpr l ++ " " ++ encExpr r ++ ")"
  | .vec xs => "(vec" ++ String.join (xs.map (fun x => " " ++ encExpr x)) ++ ")"
  | .map kvs => "(map" ++ String.join (kvs.map (fun (k, v) => " (" ++ hex k ++ " " ++ encExpr v ++ ")")) ++ ")"

def encErr : Err → String
  | .invalidType => "(err type)"
  | .invalidCast v => "(err cast " ++ encValue v ++ ")"
  | .outOfBounds v => "(err oob " ++ encValue v ++ ")"
  | .divByZero => "(err div0)"
  | .unknownRef n => "(err ref " ++ hex n ++ ")"
  | .invalidSymbol n => "(err sym " ++ hex n ++ ")"
  | .unknownFn n => "(err fn " ++ hex n ++ ")"
  | .userFn f m => "(err userfn " ++ hex f ++ " " ++ hex m ++ ")"
  | .numericOverflow => "(err numoverflow)"
  | .unexpectedValue v => "(err unexpected " ++ encValue v ++ ")"
  | .ser m => "(err ser " ++ hex m ++ ")"
  | .invalidFunctionName n => "(err badfnname " ++ hex n ++ ")"
  | .duplicateFunctionName n => "(err dupfn " ++ hex n ++ ")"
  | .duplicateRuleName n => "(err duprule " ++ hex n ++ ")"

def encFOp : FOp → String
  | .decAdd => "dec.add" | .decSub => "dec.sub" | .decMul => "dec.mul" | .decDiv => "dec.div" | .decRem => "dec.rem"
  | .decFloor => "dec.floor" | .decRound => "dec.round" | .decFract => "dec.fract"
  | .decToF64 => "dec.tof64" | .f64ToDec => "f64.todec" | .strToDec => "str.todec" | .strToF64 => "str.tof64"
  | .strToDateTime => "str.todatetime" | .strUpper => "str.upper" | .strLower => "str.lower"
  | .f64Show => "f64.show" | .xidStart => "xid.start" | .xidContinue => "xid.continue"

def decFOp : String → Option FOp
  | "dec.add" => some .decAdd | "dec.sub" => some .decSub | "dec.mul" => some .decMul | "dec.div" => some .decDiv
  | "dec.rem" => some .decRem | "dec.floor" => some .decFloor | "dec.round" => some .decRound
  | "dec.fract" => some .decFract | "dec.tof64" => some .decToF64 | "f64.todec" => some .f64ToDec
  | "str.todec" => some .strToDec | "str.tof64" => some .strToF64 | "str.todatetime" => some .strToDateTime
  | "str.upper" => some .strUpper | "str.lower" => some .strLower | "f64.show" => some .f64Show
  | "xid.start" => some .xidStart | "xid.continue" => some .xidContinue
  | _ => none

def encRes (enc : α → String) : Res α → String
  | .ok a => "(ok " ++ enc a ++ ")"
  | .err e => encErr e
  | .panic s => "(panic " ++ (match s with
      | .overflow => "overflow" | .unwrap => "unwrap" | .slice => "slice" | .todo => "todo" | .expect => "expect") ++ ")"
  | .frontier op args => "(frontier " ++ encFOp op ++ String.join (args.map (fun v => " " ++ encValue v)) ++ ")"

/-- `(oracle (q OP (args V…) (ans V)) (q OP (args V…) (fail)) …)` -/
def decOracle : Sexp → Option Oracle
  | .list (.atom "oracle" :: qs) => do
      let entries ← qs.mapM (fun (x : Sexp) => match x with
        | Sexp.list [.atom "q", .atom op, .list (.atom "args" :: as), ans] => do
            let op ← decFOp op
            let as ← as.mapM decValue
            let ans ← (match ans with
              | .list [.atom "ans", v] => (decValue v).map some
              | .list [.atom "fail"] => some none
              | _ => none)
            pure (op, as, ans)
        | _ => none)
      pure (fun op args =>
        match entries.find? (fun (o, a, _) => o == op && a == args) with
        | some (_, _, ans) => some ans
        | none => none)
  | _ => none

/-- user-function behaviours the harness implements identically:
    `(fn NAME CACHEABLE KIND (fail i…) (failarg V…))`, KIND = id | count | wrap | (const V) -/
def decFn : Sexp → Option (Str × FnModel)
  | .list [.atom "fn", name, cacheable, kind, .list (.atom "fail" :: idxs), .list (.atom "failarg" :: fargs)] => do
      let name ← atomStr name
      let c ← atomNat cacheable
      let idxs ← idxs.mapM atomNat
      let fargs ← fargs.mapM decValue
      let base : Nat → Value → Value ← (match kind with
        | .atom "id" => some (fun _ v => v)
        | .atom "count" => some (fun i _ => .int i)
        | .atom "wrap" => some (fun i v => .vec [v, .int i])
        | .atom "fail" => some (fun _ v => v)
        | .list [.atom "const", v] => (decValue v).map (fun c => fun _ _ => c)
        | _ => none)
      pure (name, { cacheable := c == 1,
                    behave := fun i v =>
                      if (match kind with | .atom "fail" => true | _ => false) then .error "fail".toList
                      else if idxs.contains i || fargs.contains v then .error ("fail".toList ++ (toString i).toList)
                      else .ok (base i v) })
  | _ => none

/-- `(env (syms (NAME V)…) (fns FN…))` -/
def decEnv (facts : Value) (o : Oracle) : Sexp → Option Env
  | .list [.atom "env", .list (.atom "syms" :: ss), .list (.atom "fns" :: fs)] => do
      let ss ← ss.mapM (fun (x : Sexp) => match x with
        | Sexp.list [k, v] => do let k ← atomStr k; let v ← decValue v; pure (k, v)
        | _ => none)
      let fs ← fs.mapM decFn
      pure ⟨facts, ss, fs, o⟩
  | _ => none

def encEvents (evs : List Event) : String :=
  "(events" ++ String.join (evs.filterMap (fun
    | .invoke f a i _ _ => some (" (inv " ++ hex f ++ " " ++ encValue a ++ " " ++ toString i ++ ")")
    | .reach _ _ _ => none)) ++ ")"

end Reval.Codec
