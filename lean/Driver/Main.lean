/-
  Driver/Main.lean — line-protocol driver over the executable model (`lean_exe`, import-free closure).
  One request per line (fields separated by TAB), one reply per line.
-/
import Driver.Codec
import Driver.Conv
import Driver.Ser
import Driver.Builder
import Driver.Syntax
import RevalModel.Impl.RuleSet
import RevalModel.Spec.OperatorTable

open Reval Reval.Codec

def handle (line : String) : String :=
  match line.splitOn "\t" with
  | ["eval", e, facts, env, oracle] =>
    match parse e >>= decExpr, parse facts >>= decValue, parse oracle >>= decOracle with
    | some e, some facts, some o =>
      match parse env >>= decEnv facts o with
      | some env =>
        let (r, st, evs) := eval env [] e St.init
        encRes encValue r ++ "\t" ++ encEvents evs ++ "\t" ++ toString st.calls
      | none => "bad-request env"
    | _, _, _ => "bad-request eval"
  | ["ruleset", rules, facts, env, oracle] =>
    match parse rules, parse facts >>= decValue, parse oracle >>= decOracle with
    | some (.list (.atom "rules" :: rs)), some facts, some o =>
      match rs.mapM decExpr, parse env >>= decEnv facts o with
      | some rs, some env =>
        let (outs, st, evs) := evaluateValue env rs
        "(outcomes" ++ String.join (outs.map (fun r => " " ++ encRes encValue r)) ++ ")\t" ++ encEvents evs ++ "\t" ++ toString st.calls
      | _, _ => "bad-request ruleset"
    | _, _, _ => "bad-request ruleset"
  | ["supported", "un", op, ty] =>
    match decUnOp op, decTy ty with
    | some op, some t => if t ∈ op.sig then "1" else "0"
    | _, _ => "bad-request supported"
  | ["supported", "bin", op, ta, tb] =>
    match decBinOp op, decTy ta, decTy tb with
    | some op, some a, some b => if (a, b) ∈ op.sig then "1" else "0"
    | _, _, _ => "bad-request supported"
  | ["conv", op, arg] => handleConv op arg
  | ["ser", arg] => handleSer arg
  | ["json", arg] => handleJson arg
  | ["evalser", rules, input, env, oracle] => handleEvalSer rules input env oracle
  | ["builder", ops, xid] => handleBuilder ops xid
  | ["lex", t] => handleLex t
  | ["parse", t, o] => handleParse t o
  | ["parserule", t, o] => handleParseRule t o
  | ["display", e, o] => handleDisplay e o
  | ["disptoks", e, o] => handleDispToks e o
  | ["ping"] => "pong"
  | _ => "bad-request"

partial def loop (inp : IO.FS.Stream) (out : IO.FS.Stream) : IO Unit := do
  let line ← inp.getLine
  if line.isEmpty then return ()
  let l := if line.endsWith "\n" then (line.dropEnd 1).toString else line
  out.putStrLn (handle l)
  out.flush
  loop inp out

def main : IO Unit := do
  loop (← IO.getStdin) (← IO.getStdout)
