/-
  Driver/Syntax.lean — protocol commands for lexing, parsing, rule parsing and rendering (C06–C08, C14, C16).
-/
import RevalModel.Spec.Printer
import Driver.Codec
import RevalModel.Impl.Display
import RevalModel.Impl.RuleParse

namespace Reval.Codec
open Reval

def encTok : Tok → String
  | .kw k => "(kw " ++ hex k ++ ")"
  | .ident s => "(ident " ++ hex s ++ ")"
  | .index s => "(index " ++ hex s ++ ")"
  | .str s => "(str " ++ hex s ++ ")"
  | .int s => "(int " ++ hex s ++ ")"
  | .hex s => "(hex " ++ hex s ++ ")"
  | .oct s => "(oct " ++ hex s ++ ")"
  | .bin s => "(bin " ++ hex s ++ ")"
  | .float s => "(float " ++ hex s ++ ")"
  | .dec s => "(dec " ++ hex s ++ ")"
  | .p s => "(p " ++ hex s ++ ")"

def encPR (enc : α → String) : PR α → String
  | .ok a _ => "(ok " ++ enc a ++ ")"
  | .error => "reject"
  | .panic _ => "(panic)"
  | .frontier op args => "(frontier " ++ encFOp op ++ String.join (args.map (fun v => " " ++ encValue v)) ++ ")"

def handleLex (text : String) : String :=
  match unhex text with
  | some s =>
    match lex s with
    | some ts => "(toks" ++ String.join (ts.map (fun t => " " ++ encTok t)) ++ ")"
    | none => "reject"
  | none => "bad-request lex"

def handleParse (text oracle : String) : String :=
  match unhex text, parse oracle >>= decOracle with
  | some s, some o =>
    let r := encPR encExpr (parseExprText o s)
    -- the theorems about the parser hold for every sufficiently large fuel: re-parse with four times the fuel
    match lex s with
    | none => r
    | some ts =>
      let big : PR Expr := match pIf o (4 * parseFuel ts + 100) ts with
        | .ok e [] => .ok e []
        | .ok _ (_ :: _) => .error
        | other => other
      if encPR encExpr big == r then r else "(fuel-sensitive " ++ r ++ ")"
  | _, _ => "bad-request parse"

def handleParseRule (text oracle : String) : String :=
  match unhex text, parse oracle >>= decOracle with
  | some s, some o =>
    match parseRuleText o s with
    | .ok r =>
      "OK\t" ++ hex r.name ++ "\t" ++ (match r.description with | some d => hex d | none => "none") ++ "\t(meta" ++
        String.join (r.metadata.map (fun (k, v) => " (" ++ hex k ++ " " ++ encValue v ++ ")")) ++ ")\t" ++ encExpr r.expr
    | .missingName => "E-missing"
    | .parseError => "E-parse"
    | .panic _ => "(panic)"
    | .frontier op args => "(frontier " ++ encFOp op ++ String.join (args.map (fun v => " " ++ encValue v)) ++ ")"
  | _, _ => "bad-request parserule"

/-- the rendering needs the library's text of each float: asked through the oracle (`f64.show`) -/
partial def floatsOf : Expr → List F64
  | .lit v => floatsOfValue v
  | .index e _ | .call _ e | .un _ e => floatsOf e
  | .ite a b c => floatsOf a ++ floatsOf b ++ floatsOf c
  | .and a b | .or a b | .eq a b | .neq a b | .bin _ a b => floatsOf a ++ floatsOf b
  | .vec xs => xs.flatMap floatsOf
  | .map kvs => kvs.flatMap (fun kv => floatsOf kv.2)
  | _ => []
where
  floatsOfValue : Value → List F64
    | .float f => [f]
    | .vec xs => xs.flatMap floatsOfValue
    | .map kvs => kvs.flatMap (fun kv => floatsOfValue kv.2)
    | _ => []

def handleDisplay (e oracle : String) : String :=
  match parse e >>= decExpr, parse oracle >>= decOracle with
  | some e, some o =>
    match (floatsOf e).find? (fun f => (o .f64Show [.float f]).isNone) with
    | some f => "(frontier f64.show " ++ encValue (.float f) ++ ")"
    | none =>
      let showF : F64 → Str := fun f => match o .f64Show [.float f] with
        | some (some (.str s)) => s
        | _ => []
      hex (Disp.showExpr showF e)
  | _, _ => "bad-request display"

/-- does the text the model prints lex to exactly the token list the round-trip theorem is about (`G.dispToks`)? -/
def handleDispToks (e oracle : String) : String :=
  match parse e >>= decExpr, parse oracle >>= decOracle with
  | some e, some o =>
    match (floatsOf e).find? (fun f => (o .f64Show [.float f]).isNone) with
    | some f => "(frontier f64.show " ++ encValue (.float f) ++ ")"
    | none =>
      let showF : F64 → Str := fun f => match o .f64Show [.float f] with
        | some (some (.str s)) => s
        | _ => []
      match lex (Disp.showExpr showF e) with
      | some ts => if ts == G.dispToks showF e then "(toks-same)" else "(toks-differ)"
      | none => "(toks-differ)"
  | _, _ => "bad-request disptoks"

end Reval.Codec
