/-
  Driver/Conv.lean — protocol commands for `value/convert.rs` (C17).
-/
import Driver.Codec
import RevalModel.Impl.Convert

namespace Reval.Codec
open Reval Reval.Conv

def decIntKind : String → Option IntKind
  | "i8" => some .i8 | "i16" => some .i16 | "i32" => some .i32 | "i64" => some .i64 | "i128" => some .i128
  | "u8" => some .u8 | "u16" => some .u16 | "u32" => some .u32 | "u64" => some .u64 | "u128" => some .u128
  | "usize" => some .u64
  | _ => none

def encExcept (enc : α → String) : Except Err α → String
  | .ok a => "(ok " ++ enc a ++ ")"
  | .error e => encErr e

/-- scalar extraction by kind name, result re-encoded as a Value -/
def tryScalar (kind : String) (v : Value) : Option (Except Err Value) :=
  match decIntKind kind with
  | some k => some ((tryInt k v).map .int)
  | none =>
    match kind with
    | "f64" => some ((tryF64 v).map .float)
    | "str" => some ((tryStr v).map .str)
    | "dec" => some ((tryDec v).map .dec)
    | "bool" => some ((tryBool v).map .bool)
    | "dt" => some ((tryDateTime v).map .dateTime)
    | "dur" => some ((tryDuration v).map .duration)
    | _ => none

def convTry (kind : String) (v : Value) : String :=
  match kind.splitOn ":" with
  | [k] =>
    if k == "mapvalue" then encExcept (fun m => encValue (.map m)) (tryMapValue v)
    else match tryScalar k v with
      | some r => encExcept encValue r
      | none => "bad-request conv kind"
  | ["vec", k] =>
    match tryScalar k .none with
    | some _ => encExcept (fun xs => encValue (.vec xs)) (tryVec (fun x => (tryScalar k x).getD (.error .invalidType)) v)
    | none => "bad-request conv kind"
  | ["map", k] =>
    match tryScalar k .none with
    | some _ => encExcept (fun m => encValue (.map m)) (tryMap (fun x => (tryScalar k x).getD (.error .invalidType)) v)
    | none => "bad-request conv kind"
  | _ => "bad-request conv kind"

def convFrom (kind : String) (arg : Sexp) : String :=
  match kind.splitOn ":", arg with
  | ["f32"], .list [.atom "f32", .atom h] =>
    match parseHexNat h with
    | some n => encValue (fromF32 (UInt32.ofNat n))
    | none => "bad-request conv f32"
  | ["option"], .list [.atom "some", v] => (decValue v).elim "bad-request" (fun v => encValue (fromOption (some v)))
  | ["option"], .list [.atom "nonev"] => encValue (fromOption none)
  | ["vec"], v => (decValue v).elim "bad-request" (fun v => match v with
      | .vec xs => encValue (fromVec id xs)
      | _ => "bad-request")
  | ["map"], .list (.atom "pairs" :: ps) =>
    match ps.mapM (fun (x : Sexp) => match x with
      | Sexp.list [k, v] => do let k ← atomStr k; let v ← decValue v; pure (k, v)
      | _ => none) with
    | some kvs => encValue (fromMap id kvs)
    | none => "bad-request"
  | [k], v =>
    match decIntKind k, decValue v with
    | some ik, some (.int n) => encValue (fromInt ik n)
    | _, some v => encValue v      -- From<String / f64 / Decimal / bool / DateTime / TimeDelta>: the identity embedding
    | _, _ => "bad-request"
  | _, _ => "bad-request conv from"

def handleConv (op : String) (arg : String) : String :=
  if op.startsWith "try:" then
    match parse arg >>= decValue with
    | some v => convTry (op.drop 4).toString v
    | none => "bad-request conv arg"
  else if op.startsWith "from:" then
    match parse arg with
    | some a => convFrom (op.drop 5).toString a
    | none => "bad-request conv arg"
  else "bad-request conv"

end Reval.Codec
