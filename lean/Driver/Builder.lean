/-
  Driver/Builder.lean — protocol command for builder histories (C15).
-/
import Driver.Codec
import RevalModel.Impl.Builder

namespace Reval.Codec
open Reval

def mkFn (name : Str) : Str × FnModel := (name, ⟨false, fun _ _ => .ok (.str name)⟩)

def decBOp : Sexp → Option BOp
  | .list [.atom "rule", n] => (atomStr n).map (fun n => .rule ⟨n, .lit .none⟩)
  | .list (.atom "rules" :: ns) => (ns.mapM atomStr).map (fun ns => .rules (ns.map (fun n => ⟨n, .lit .none⟩)))
  | .list [.atom "fn", n] => (atomStr n).map (fun n => .fn (mkFn n))
  | .list (.atom "fns" :: ns) => (ns.mapM atomStr).map (fun ns => .fns (ns.map mkFn))
  | .list [.atom "sym", k, v] => do let k ← atomStr k; let v ← decValue v; pure (.sym k v)
  | .list (.atom "syms" :: kvs) => (kvs.mapM (fun (x : Sexp) => match x with
      | Sexp.list [k, v] => do let k ← atomStr k; let v ← decValue v; pure (k, v)
      | _ => none)).map .syms
  | _ => none

/-- XID classes: ASCII exactly; other code points from the table the harness obtained from `unicode-xid` -/
def mkXid (table : List (Nat × Bool × Bool)) : Xid :=
  let find (c : Char) : Option (Bool × Bool) := (table.find? (fun t => t.1 == c.toNat)).map (·.2)
  { start := fun c =>
      if c.toNat < 128 then ('a' ≤ c && c ≤ 'z') || ('A' ≤ c && c ≤ 'Z')
      else ((find c).map (·.1)).getD false,
    cont := fun c =>
      if c.toNat < 128 then ('a' ≤ c && c ≤ 'z') || ('A' ≤ c && c ≤ 'Z') || ('0' ≤ c && c ≤ '9') || c == '_'
      else ((find c).map (·.2)).getD false }

def decXid : Sexp → Option (List (Nat × Bool × Bool))
  | .list (.atom "xid" :: ts) => ts.mapM (fun (x : Sexp) => match x with
      | Sexp.list [c, s, k] => do let c ← atomNat c; let s ← atomNat s; let k ← atomNat k; pure (c, s == 1, k == 1)
      | _ => none)
  | _ => none

def handleBuilder (ops xid : String) : String :=
  match parse ops, parse xid >>= decXid with
  | some (.list (.atom "ops" :: os)), some table =>
    match os.mapM decBOp with
    | some ops =>
      let x := mkXid table
      let rec go (s : BState) (ops : List BOp) (acc : List String) : List String × Option BState :=
        match ops with
        | [] => (acc.reverse, some s)
        | op :: rest =>
          match bstep x s op with
          | .ok s' => go s' rest ("ok" :: acc)
          | .error e => ((encErr e :: acc).reverse, none)
      let (steps, fin) := go BState.init ops []
      let head := "(steps" ++ String.join (steps.map (fun s => " " ++ s)) ++ ")"
      match fin with
      | none => head
      | some s =>
        head ++ "\t(rules" ++ String.join (s.rules.map (fun r => " " ++ hex r.name)) ++ ")\t(fns" ++
          String.join (s.fns.map (fun f => " " ++ hex f.1)) ++ ")\t(syms" ++
          String.join (s.symbols.map (fun (k, v) => " (" ++ hex k ++ " " ++ encValue v ++ ")")) ++ ")"
    | none => "bad-request builder ops"
  | _, _ => "bad-request builder"

end Reval.Codec
