#!/usr/bin/env python3
"""Regenerates MANIFEST.json from obligations.json + manifest_meta.json (levels, notes, not_applicable reasons)."""
import json
obl = json.load(open('obligations.json'))
meta = json.load(open('manifest_meta.json'))
props = [json.loads(l) for l in open('properties.jsonl')]
checks, na = [], []
for p in props:
    pid = p['id']
    if pid in obl and pid in meta['claimed']:
        m = meta['claimed'][pid]
        checks.append({
            "property_id": pid,
            "quick_cmd": "./check %s --tier quick" % pid,
            "thorough_cmd": "./check %s --tier thorough" % pid,
            "evidence_file": "/verif/evidence/%s.json" % pid,
            "replay_cmd_template": "./check %s --replay {path}" % pid,
            "engine": "lean-model+correspondence",
            "level_claimed": {"category": obl[pid]['level'], "text": m['text'], "design_ref": m['design_ref']},
            "level_note": m['note'],
            "technique": m['technique'],
        })
    else:
        na.append({"property_id": pid, "reason": meta['not_applicable'].get(pid, "not yet claimed: the model, theorems and correspondence stream for this property are not built yet")})
man = {
    "version": 1,
    "setup_cmd": "./check --setup",
    "hooks": {"guard": "reval_verif", "enable": "none needed: every observation goes through the public API; the harness is a separate crate with a path dependency on /repo", "baseline_off_cmd": "cd /repo && cargo test --workspace --no-fail-fast --offline", "source_commits": [], "add_only": True},
    "engines": [{"name": "lean-model+correspondence", "path": "/verif/lean, /verif/harness, /verif/check", "serves_properties": [c['property_id'] for c in checks], "kind_free_text": "Lean 4 model + machine-checked theorems (lake build, axiom audit), tied to /repo by a Rust correspondence harness that runs the real code and the compiled Lean driver on the same inputs"}],
    "checks": checks,
    "not_applicable": na,
    "notes": meta.get('notes', ''),
}
json.dump(man, open('MANIFEST.json', 'w'), indent=1)
print("claimed", [c['property_id'] for c in checks], "not claimed", [n['property_id'] for n in na])
