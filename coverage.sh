#!/bin/bash
# Development aid (not a registered check): which lines of /repo/src do the correspondence streams execute?
# Builds the harness with the nightly toolchain's source-based coverage, runs every property's quick streams, and
# prints llvm-cov's per-file summary for the repository's own sources plus the uncovered lines.
# usage: ./coverage.sh [outdir]   (default /tmp/reval-cov; removed and recreated)
set -e
OUT=${1:-/tmp/reval-cov}
NB=/root/.rustup/toolchains/nightly-x86_64-unknown-linux-gnu/lib/rustlib/x86_64-unknown-linux-gnu/bin
rm -rf "$OUT"; mkdir -p "$OUT/prof"
export CARGO_NET_OFFLINE=true
cd /verif/harness
LLVM_PROFILE_FILE="$OUT/prof/build-%p.profraw" RUSTFLAGS="-C instrument-coverage" cargo +nightly build --offline --target-dir "$OUT/target" --bin harness 2>&1 | tail -2
BIN="$OUT/target/debug/harness"
DRIVER=/verif/lean/.lake/build/bin/driver
for id in C01 C02 C03 C04 C05 C06 C07 C08 C09 C10 C11 C12 C13 C14 C15 C16 C17; do
  LLVM_PROFILE_FILE="$OUT/prof/$id-%p.profraw" "$BIN" --prop $id --tier quick --seed 1 --driver $DRIVER --out "$OUT/$id.json" >/dev/null 2>&1 || echo "$id: harness rc=$?"
done
$NB/llvm-profdata merge -sparse "$OUT"/prof/*.profraw -o "$OUT/all.profdata"
$NB/llvm-cov report "$BIN" -instr-profile="$OUT/all.profdata" --ignore-filename-regex='(\.cargo|rustc|/verif/|target/)' | tee "$OUT/report.txt"
$NB/llvm-cov show "$BIN" -instr-profile="$OUT/all.profdata" --ignore-filename-regex='(\.cargo|rustc|/verif/|target/)' --show-line-counts-or-regions > "$OUT/show.txt"
echo "uncovered lines (count 0) per file -> $OUT/uncovered.txt"
awk '/^\/repo\/src/ {f=$0} /^ +[0-9]+\| +0\|/ {print f": "$0}' "$OUT/show.txt" > "$OUT/uncovered.txt"
wc -l "$OUT/uncovered.txt"
